#!/venv/bin/python
"""Copy round-three sub-agent outputs /tmp/seed3/<P>-<X>/ into /verif/seeded/<P>-<X>/."""
import json, os, shutil, sys
for d in sorted(os.listdir("/tmp/seed3")):
    src = os.path.join("/tmp/seed3", d)
    if d == "prompts" or not os.path.exists(os.path.join(src, "meta.json")):
        continue
    if sys.argv[1:] and d not in sys.argv[1:] and d.split("-")[0] not in sys.argv[1:]:
        continue
    dst = os.path.join("/verif/seeded", d)
    os.makedirs(dst, exist_ok=True)
    shutil.copy(os.path.join(src, "patch.diff"), os.path.join(dst, "patch.diff"))
    shutil.copy(os.path.join(src, "demo.py"), os.path.join(dst, "demo.py"))
    meta = json.load(open(os.path.join(src, "meta.json")))
    meta["origin"] = "round three: written by a sub-agent that saw only the property text and one-line summaries of the earlier changes (no access to /verif)"
    json.dump(meta, open(os.path.join(dst, "meta.json"), "w"), indent=1)
    print("ingested", dst)
