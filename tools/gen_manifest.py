#!/venv/bin/python
"""Regenerate /verif/MANIFEST.json from the per-check texts below.

Only checks whose module exists under sim/checks are claimed; every other property
is listed under not_applicable with its reason.  Run: /venv/bin/python tools/gen_manifest.py
"""
import json
import os
import sys

VERIF = os.path.dirname(os.path.dirname(os.path.abspath(__file__)))
sys.path.insert(0, VERIF)

TECH = "deterministic simulation: seeded scenario search with fault injection at owned seams, reference-model oracle, ddmin replay"

CLAIMS = {
    "C01": dict(
        module="c01_mendel", design="DESIGN.md §4 C01",
        technique="deterministic simulation: simulator-owned generator (recorded/scripted legal draws) driving all seven mating protocols, provenance-code oracle, seeded search, minimised replay",
        text="Seeded search over founders with provenance allele codes, cross configurations, counts, selfing depths and crossover vectors for all seven mating protocols and the low-level meiosis helpers; the generator is owned by the simulator so legal-but-rare draws (crossover everywhere / nowhere / exactly at the probability) are injected. Every progeny cell is traced to the founder copy it came from. Sampling, not proof.",
        note="NumPy/PCG64 trusted; three-/four-way orientation required consistent per run rather than fixed; bounds: <=10 founders, <=16 markers, <=6 crosses."),
    "C02": dict(
        module="c02_recomb", design="DESIGN.md §4 C02",
        technique="deterministic simulation: scripted stratified uniform draws at the generator seam (exact 1/N bound) plus fixed-seed real-PRNG runs with explicit error budgets",
        text="Two modes: stratified scripted draws make realised crossover and segregation frequencies deterministic to within 1/N; real-PRNG designs with 2e5 gametes check adjacent, non-adjacent (Haldane), independence and joint clauses with a stated false-alarm budget (<1e-6 per check run), reproducible per VERIF_SEED. Map-assigned probabilities are judged against values computed by the harness from the map applied last (Haldane or Kosambi, standard or extended map, points coinciding with the markers or sparser, optional earlier mapping, markers handed over in shuffled order); all seven protocols have a read-out.",
        note="Statistical clauses decided at fixed seeds with 6.5-sigma budgets: sensitive to deviations of roughly >=1%."),
    "C03": dict(
        module="c03_labels", design="DESIGN.md §4 C03",
        technique="deterministic simulation: seeded operation histories against an entity-tracking reference model, twin-form comparison, ddmin replay",
        text="Random histories of structural operations (all labelled axes, specific/generic and mutating/non-mutating forms, many argument forms) on 25 labelled matrix classes plus the three genotyping protocols, executed against an entity-tracking list model; labels, data cells, operand immutability, form equivalence and group-metadata truth are checked after every step; objects a result was derived from are kept and must not change when the derived object is modified in place.",
        note="Operations rejected in every form are recorded, not flagged, provided receiver and operands are unchanged; dims <= 6, <= 12 ops per history."),
    "C06": dict(
        module="c06_optim", design="DESIGN.md §4 C06",
        technique="deterministic simulation: owned entropy/clock world and generator seam around every optimiser, per-generation invariant via wrapped minimize, brute-force reference optimum",
        text="Every optimiser class that runs here is driven on small generated problems (EBV and non-separable optimal-contribution families; candidate sets in any order, partial, or replaced through the setter; bounds re-set through the setters) in all four encodings under owned entropy and seeded global streams; feasibility, truthful objective/constraint values, non-domination, problem immutability, brute-force optimality of the sorting optimiser and single-exchange local optimality of hill-climbers are checked.",
        note="pymoo internals trusted as a component that runs real; ngen <= 4, pop <= 12, candidate sets <= 10."),
    "C07": dict(
        module="c07_select", design="DESIGN.md §4 C07",
        technique="deterministic simulation: seeded populations through real selection protocols with owned entropy and scripted configuration generator, independent criterion oracle, relabelled twin runs",
        text="Seventeen selection protocol families (EBV, GEBV, random, OCS, OHV, UC, wGS, generalised wGEBV, family EBV, MEH, MGR, PAFD, PAU, OPV, EMBV, MOGS, genotype builder; subset/real/integer/binary and mate-selection forms) run on generated populations with explicit small optimisers; cross-configuration shape, membership, multiplicities, exchange-minimal self-pairings, exact truncation choice, permutation equivariance and the multi-objective pick are checked.",
        note="Explicit small optimisers replace the 250-generation defaults; ties excluded by construction for the truncation clause."),
    "C08": dict(
        module="c08_repro", design="DESIGN.md §4 C08",
        technique="deterministic simulation: programs of stochastic API calls replayed across entropy/clock worlds, prefix histories, generator kinds and fresh interpreters; global-state snapshots",
        text="Programs of stochastic API calls (about 120 catalogue components incl. 17 selection-protocol families and the legacy optimisers) are executed twice after prng.seed(s) under different prior histories (light calls, components related to the program, pre-existing objects that were already used), entropy worlds and clocks (and in fresh interpreters with another hash seed); outputs and final global generator states must agree bit for bit. Components given an explicit generator must be a pure function of it and leave both global streams untouched.",
        note="seed(None) excluded as documented nondeterminism; program length <= 8, GA ngen <= 3."),
    "C10": dict(
        module="c10_limits", design="DESIGN.md §4 C10",
        technique="deterministic simulation: closed breeding histories simulated with the real mating protocols under an owned generator (scripted crossover extremes, bottlenecks), per-generation invariants from an independent allele-level reference",
        text="Closed breeding programmes are simulated for up to 8 generations with real mating protocols and selection rules at population sizes that include the reciprocal-rounding sizes, a family of more than 50 000, and population objects culled or extended in place; at every generation the limits must bracket every GEBV, be monotone, never see a lost allele return, and collapse to the common value at fixation.",
        note="Tolerance 4 eps ploidy sum|u| on bracketing, 2 ulp on monotonicity; <= 110 taxa x 24 markers."),
    "C14": dict(
        module="c14_pheno", design="DESIGN.md §4 C14",
        technique="deterministic simulation: phenotyping protocol under an owned generator recording every normal draw; exact structural oracle plus chi-square budgets on recorded draws",
        text="G_E_Phenotyping (used directly or through a copy / HDF5 round trip) runs on generated diploid or tetraploid populations with additive or additive+dominance models and drawn environment/replicate layouts and variances (incl. zero); record multiplicity and labels, exact truth at zero variance, additive noise structure, heritability algebra, and mean-phenotype breeding values (alignment, row-order invariance, missing taxa) are checked.",
        note="Variance convergence judged on the recorded draws with 1e-10 tail budgets."),
    "C15": dict(
        module="c15_bvscale", design="DESIGN.md §4 C15",
        technique="deterministic simulation: seeded taxa-axis operation histories on breeding-value matrices against a raw-value reference model",
        text="Histories of taxa-axis operations and summary queries on the three breeding-value matrix classes built from raw matrices with constant columns, NaNs and large offsets; after every step unscale() must reproduce each entity's raw values, NaNs stay put, summaries match NumPy on the raw values.",
        note="Summaries compared on NaN-free columns only; tolerance 8 eps (|location| + scale |z|)."),
    "C16": dict(
        module="c16_persist", design="DESIGN.md §4 C16",
        technique="deterministic simulation: write/read/copy histories against a last-write-wins store model over in-memory and on-disk HDF5, CSV and data-frame back ends",
        text="Histories of writes, overwrites, reads, copies and mutations over a simulated store (several files, group paths, open handles vs reopen) for every persistable class and variant; a read must equal the last object written under the equality the format can carry, copies equal their source and deep copies share no memory.",
        note="No I/O-error injection: C16 does not state post-failure behaviour. CSV floats to 4 ulp; group cache not compared on CSV/frame paths."),
    "C17": dict(
        module="c17_sampling", design="DESIGN.md §4 C17",
        technique="deterministic simulation: sampling utilities under a simulator-owned generator with scripted legal extreme draws, exact rational reference counts",
        text="The four sampling utilities are called with generated weights, sizes and tables under an owned generator that returns legal extreme offsets, bin-edge offsets and extreme permutations as well as real draws; shape, floor/ceiling counts from exact rational arithmetic, zero-weight exclusion, balance, slice preservation and exchange-minimality are checked.",
        note="Counts within rounding of an integer accept both neighbours (delta = 64 eps k n)."),
    "C20": dict(
        module="c20_loop", design="DESIGN.md §4 C20",
        technique="deterministic simulation: real programme loop driven against simulator-owned collaborators with injected in-place mutation, crash at arbitrary call and restart; reference call automaton",
        text="The real RecurrentSelectionBreedingProgram, started from real library objects (phased, tetraploid unphased, breeding-value matrices, a model), drives six simulator-owned collaborators whose behaviour (pure, mutating containers or objects, deleting keys, returning received dicts, stashing references and mutating them in later replicates) and crash schedule are drawn per run; a reference automaton checks call order, time index, hand-over by value, log visibility, replicate freshness after crashes and restarts, and immutability of the stored initial state.",
        note="Collaborators are stubs by necessity (abstract in pybrops); nrep, ngen <= 4."),
}

NA = {
    "C04": "pure function of its inputs (closed-form predictions and a deterministic rrBLUP fit): no generator state, history, I/O, clock or collaborating party for a simulator to own; deciding it would be input generation, not simulation.",
    "C05": "latentfn/evalfn of the selection problems are pure functions of the decision vector and stored arrays; encoding equivalence is an input-space relation with no schedule, fault or history dimension.",
    "C09": "allele/genotype counts, frequencies and flags are pure reductions of the allele-call array; nothing stochastic, stateful or external to simulate.",
    "C11": "map functions and genetic-map distances/interpolation are pure algebra on arrays; row-order independence is an input permutation, not an operation history.",
    "C12": "progeny variance tensors are deterministic blocked sums whose oracle is exhaustive gamete enumeration (a pure computation); a Monte-Carlo simulation cross-check would be strictly weaker.",
    "C13": "coancestry estimators and summaries are pure linear algebra on the genotype matrix; no nondeterminism, history or I/O.",
    "C18": "haplotype-block partitioning and block-value sums are pure functions of positions, genotypes and effects.",
    "C19": "the Pareto filter, dominance predicate and distance transforms are pure functions of a point set.",
}


def main():
    checks = []
    na = [{"property_id": k, "reason": v} for k, v in sorted(NA.items())]
    for pid, c in sorted(CLAIMS.items()):
        if not os.path.exists(os.path.join(VERIF, "sim", "checks", c["module"] + ".py")):
            na.append({"property_id": pid, "reason": "claimed by the design (DESIGN.md §4) but its check is not built yet in this commit; not claimed until it is."})
            continue
        checks.append({
            "property_id": pid,
            "quick_cmd": "./check %s --tier quick" % pid,
            "thorough_cmd": "./check %s --tier thorough" % pid,
            "evidence_file": "/verif/evidence/%s.json" % pid,
            "replay_cmd_template": "./check %s --replay {path}" % pid,
            "engine": "sim",
            "level_claimed": {"category": "exploration", "text": c["text"], "design_ref": c["design"]},
            "level_note": c["note"],
            "technique": c["technique"],
        })
    na.sort(key=lambda e: e["property_id"])
    man = {
        "version": 1,
        "setup_cmd": "./setup.sh",
        "hooks": {
            "guard": "PYBROPS_VERIF",
            "enable": "no source hooks: every seam (generator subclasses passed as rng=, entropy/clock patches, file-like HDF5 storage, fake operators, NumPy alias shim) is installed in the harness process; checks run /venv/bin/python with PYTHONPATH=/repo",
            "baseline_off_cmd": "cd /repo && /venv/bin/python -m pytest -ra -q -p no:cacheprovider --timeout=900 --continue-on-collection-errors",
            "source_commits": [],
            "add_only": True,
        },
        "engines": [{
            "name": "sim", "path": "/verif/sim",
            "serves_properties": [c["property_id"] for c in checks],
            "kind_free_text": "single-process deterministic simulator written for this repository: one PRNG per run derived from VERIF_SEED decides scenario, faults and scripted generator outcomes; owned seams for randomness, OS entropy, wall clock, HDF5 storage and breeding-loop collaborators; reference-model oracles; ddmin minimisation; fresh-interpreter replay confirmation",
        }],
        "checks": checks,
        "not_applicable": na,
        "notes": "See DESIGN.md. Exit 0 = held (KNOWN-FINDING lines allowed), 1 = VIOLATION lines, 2 = harness error. Known findings: /verif/known_findings.json.",
    }
    with open(os.path.join(VERIF, "MANIFEST.json"), "w") as f:
        json.dump(man, f, indent=1)
    try:
        import jsonschema
        jsonschema.validate(man, json.load(open("/root/.vp/MANIFEST.schema.json")))
        print("MANIFEST.json valid; claimed:", [c["property_id"] for c in checks])
    except ImportError:
        print("MANIFEST.json written (jsonschema not importable here)")


if __name__ == "__main__":
    main()
