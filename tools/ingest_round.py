#!/venv/bin/python
"""Copy sub-agent outputs <base>/<P>-<X>/ (patch.diff, demo.py, meta.json) into /verif/seeded/<P>-<X>/.

    python tools/ingest_round.py /tmp/seed4 "round four" [ids or properties...]
"""
import json, os, shutil, sys
base, label, sel = sys.argv[1], sys.argv[2], sys.argv[3:]
for d in sorted(os.listdir(base)):
    src = os.path.join(base, d)
    if d == "prompts" or not os.path.exists(os.path.join(src, "meta.json")):
        continue
    if sel and d not in sel and d.split("-")[0] not in sel:
        continue
    dst = os.path.join("/verif/seeded", d)
    os.makedirs(dst, exist_ok=True)
    shutil.copy(os.path.join(src, "patch.diff"), os.path.join(dst, "patch.diff"))
    shutil.copy(os.path.join(src, "demo.py"), os.path.join(dst, "demo.py"))
    meta = json.load(open(os.path.join(src, "meta.json")))
    meta["origin"] = "%s: written by a sub-agent that saw only the property text and one-line summaries of the earlier changes (no access to /verif)" % label
    json.dump(meta, open(os.path.join(dst, "meta.json"), "w"), indent=1)
    print("ingested", dst)
