#!/venv/bin/python
"""List distinct violation signatures (with one example each) over the first N runs of a check.
    PYTHONPATH=/verif:/repo python tools/triage.py C03 2000 [substring]"""
import collections, os, random, sys
VERIF = os.path.dirname(os.path.dirname(os.path.abspath(__file__)))
sys.path.insert(0, VERIF)
from sim import entropy
entropy.install()
from sim import core
prop, n = sys.argv[1], int(sys.argv[2])
sub = sys.argv[3] if len(sys.argv) > 3 else ""
tier = os.environ.get("VERIF_TIER", "quick")
mod = core.load_check(prop)
cnt = collections.Counter(); ex = {}
for i in range(n):
    s = core.run_seed(0, prop, tier, i)
    sc = mod.generate(random.Random(s), tier)
    try:
        out = core.execute_scenario(mod, sc)
    except BaseException as e:
        k = "HARNESS %s: %s" % (type(e).__name__, str(e)[:100]); cnt[k] += 1; ex.setdefault(k, (i, "")); continue
    for v in out["violations"]:
        if sub in v["signature"]:
            cnt[v["signature"]] += 1; ex.setdefault(v["signature"], (i, v["message"]))
for k, c in sorted(cnt.items()):
    print("%4d %s\n       run %d: %s" % (c, k, ex[k][0], ex[k][1][:int(os.environ.get("W", "400"))]))
