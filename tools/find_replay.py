#!/venv/bin/python
"""Find, minimise and save a replay for a violation whose signature contains a substring.

    VERIF_REPO=<tree> PYTHONPATH=/verif:<tree> python tools/find_replay.py C08 'seeded-reproducibility|ga.subset' regress/NAME.json [--max 4000]

Used to keep a regression replay of a defect before it is repaired by a fix: commit.
"""
import json
import os
import random
import sys

VERIF = os.path.dirname(os.path.dirname(os.path.abspath(__file__)))
sys.path.insert(0, VERIF)


def main():
    prop, sub, out = sys.argv[1:4]
    mx = int(sys.argv[5]) if len(sys.argv) > 5 and sys.argv[4] == "--max" else 4000
    from sim import entropy
    entropy.install()
    from sim import core
    mod = core.load_check(prop)
    for i in range(mx):
        s = core.run_seed(0, prop, "quick", i)
        sc = mod.generate(random.Random(s), "quick")
        sc["run_index"] = i
        sc["run_seed"] = "%016x" % s
        o = core.execute_scenario(mod, sc)
        hit = [v for v in o["violations"] if sub in v["signature"]]
        if hit:
            sig = hit[0]["signature"]
            msc, n = core.minimise(mod, sc, sig)
            v2 = core._has_sig(mod, msc, sig) or hit[0]
            doc = {"format": 1, "property": prop, "tier": "quick", "verif_seed": 0, "clause": v2["clause"], "component": v2["component"],
                   "signature": sig, "expect": {"step": v2.get("step"), "message": v2["message"]},
                   "minimised": {"executions": n}, "scenario": msc}
            with open(os.path.join(VERIF, out), "w") as f:
                f.write(core.dumps(doc, indent=1, sort_keys=True))
            print("saved", out, sig, "run", i)
            return 0
    print("not found")
    return 1


if __name__ == "__main__":
    sys.exit(main())
