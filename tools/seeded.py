#!/venv/bin/python
"""Run the checks against the independently written breaking changes kept under /verif/seeded/<id>/.

For each change: copy /repo/pybrops to a scratch directory, apply patch.diff there, confirm the demonstration
fails with the patch and passes without it, run the property's check (`./check <prop> --no-evidence`) against the
patched copy through VERIF_REPO, and record CAUGHT / MISSED.  /repo is never touched.

    python tools/seeded.py [ids...] [--runs N] [--tier thorough]
"""
import json
import os
import shutil
import subprocess
import sys

VERIF = os.path.dirname(os.path.dirname(os.path.abspath(__file__)))
SEEDED = os.path.join(VERIF, "seeded")


def sh(cmd, **kw):
    return subprocess.run(cmd, capture_output=True, text=True, **kw)


def main(argv):
    runs, tier, sel = None, None, []
    it = iter(argv)
    for a in it:
        if a == "--runs":
            runs = next(it)
        elif a == "--tier":
            tier = next(it)
        else:
            sel.append(a)
    rows = []
    for sid in sorted(os.listdir(SEEDED)):
        d = os.path.join(SEEDED, sid)
        if not os.path.isdir(d) or (sel and sid not in sel and not any(sid.startswith(s) for s in sel)):
            continue
        meta = json.load(open(os.path.join(d, "meta.json")))
        prop = meta["property"]
        scratch = "/dev/shm/pybrops-seeded-%s-%d" % (sid, os.getpid())
        shutil.rmtree(scratch, ignore_errors=True)
        os.makedirs(scratch)
        try:
            shutil.copytree("/repo/pybrops", os.path.join(scratch, "pybrops"))
            p = sh(["patch", "-p1", "--binary", "-d", scratch, "-i", os.path.join(d, "patch.diff")])
            if p.returncode != 0:
                p = sh(["patch", "-p1", "-d", scratch, "-i", os.path.join(d, "patch.diff")])
            if p.returncode != 0:
                rows.append((sid, prop, "PATCH-FAILED", p.stdout[-200:] + p.stderr[-200:]))
                continue
            env = dict(os.environ, PYTHONPATH=scratch, PYBROPS_ROOT=scratch, PYTHONHASHSEED="0")
            demo = os.path.join(d, "demo.py")
            dm = sh(["/venv/bin/python", demo], env=env, cwd=scratch, timeout=900)
            dc = sh(["/venv/bin/python", demo], env=dict(os.environ, PYTHONPATH="/repo", PYBROPS_ROOT="/repo", PYTHONHASHSEED="0"), cwd="/repo", timeout=900)
            demo_ok = dm.returncode != 0 and dc.returncode == 0
            cmd = [os.path.join(VERIF, "check"), prop, "--no-evidence"]
            if runs:
                cmd += ["--runs", runs]
            if tier:
                cmd += ["--tier", tier]
            c = sh(cmd, env=dict(os.environ, VERIF_REPO=scratch, VERIF_REPLAYS=os.path.join(scratch, "replays")), cwd=VERIF, timeout=7200)
            sigs = sorted({l.strip()[10:] for l in c.stdout.splitlines() if l.strip().startswith("signature=")})
            verdict = {0: "MISSED", 1: "CAUGHT", 2: "HARNESS-ERROR"}.get(c.returncode, "exit%d" % c.returncode)
            rows.append((sid, prop, verdict + ("" if demo_ok else " (demo check failed: patched rc=%d clean rc=%d)" % (dm.returncode, dc.returncode)), "; ".join(sigs[:2])))
        finally:
            shutil.rmtree(scratch, ignore_errors=True)
        print("%-16s %-4s %-14s %s" % rows[-1], flush=True)
    rp = os.path.join(SEEDED, "RESULTS.json")
    try:
        old = {r["id"]: r for r in json.load(open(rp))}
    except Exception:
        old = {}
    for r in rows:
        old[r[0]] = {"id": r[0], "property": r[1], "verdict": r[2], "signatures": r[3]}
    with open(rp, "w") as f:
        json.dump([old[k] for k in sorted(old)], f, indent=1)
    return 0 if all(r[2].startswith("CAUGHT") for r in rows) else 1


if __name__ == "__main__":
    sys.exit(main(sys.argv[1:]))
