#!/venv/bin/python
"""Copy sub-agent outputs /tmp/seed/<P>_out/{A,B}.* into /verif/seeded/<P>-<x>/ (patch.diff, demo.py, meta.json)."""
import json, os, shutil, sys
for p in sys.argv[1:]:
    src = "/tmp/seed/%s_out" % p
    for x in ("A", "B"):
        if not os.path.exists(os.path.join(src, x + ".diff")):
            continue
        d = "/verif/seeded/%s-%s" % (p, x)
        os.makedirs(d, exist_ok=True)
        shutil.copy(os.path.join(src, x + ".diff"), os.path.join(d, "patch.diff"))
        shutil.copy(os.path.join(src, x + "_demo.py"), os.path.join(d, "demo.py"))
        meta = json.load(open(os.path.join(src, x + "_meta.json")))
        meta["origin"] = "written by a sub-agent that saw only the property text (no access to /verif)"
        json.dump(meta, open(os.path.join(d, "meta.json"), "w"), indent=1)
        print("ingested", d)
