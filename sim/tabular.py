"""Format adaptors for C16: which formats a class supports, the *matching options*
for each write/read pair, the store locations, and the equality each format can carry.

HDF5 (and copies): bit-exact snapshot equality.
CSV / data frame / dict forms: only fully labelled objects are written this way
(the tabular formats have no representation for an absent label array); labels,
order, integers and strings exact; floats within 4 ulp (pandas' default float
parser is not round-trip exact); the group-metadata *cache* is not compared (the
formats carry labels and order, from which it is a pure function).  Order and
content are separate clauses: content is compared label-wise.
"""
import copy
import os

import numpy

from . import compat  # noqa: F401
from . import objects
from .snapshot import snap, diff

EPS = numpy.finfo(float).eps


def family(key):
    return objects.B[key]["family"]


def formats_for(key):
    fam = family(key)
    if fam == "gmap":
        return ["csv", "pandas"]
    if fam in ("bvmat", "cmat", "vmat", "pcvmat") or key == "DenseSquareTaxaTraitMatrix":
        return ["hdf5", "hdf5", "csv", "pandas"]
    if fam == "gmod":
        return ["hdf5", "hdf5", "csv_dict", "pandas_dict"]
    return ["hdf5"]


def writer_name(fmt):
    return {"hdf5": "to_hdf5", "csv": "to_csv", "pandas": "to_pandas", "csv_dict": "to_csv_dict", "pandas_dict": "to_pandas_dict"}[fmt]


def gmap_units(loc):
    """Genetic maps are exported in Morgans or centiMorgans, depending on the location written to (and read back in the same unit)."""
    import zlib
    return "cM" if zlib.crc32(repr(tuple(loc)).encode()) & 1 else "M"


def reader_name(fmt):
    return {"hdf5": "from_hdf5", "csv": "from_csv", "pandas": "from_pandas", "csv_dict": "from_csv_dict", "pandas_dict": "from_pandas_dict"}[fmt]


def location(st, fmt):
    if fmt == "hdf5":
        g = st["group"]
        store = "mem" if st["via"] == "memory" else "disk"
        return (store, st["file"], "" if g is None else g.rstrip("/"))
    if fmt in ("csv", "csv_dict"):
        return ("csv", st["file"], fmt)
    return ("frame", st["file"], fmt)


def richness(s):
    """Number of non-None attributes of a snapshot (richer objects carry more optional arrays)."""
    if isinstance(s, dict) and "attrs" in s:
        return sum(1 for v in s["attrs"].values() if v is not None)
    return 0


def fully_labelled(o):
    if hasattr(type(o), "u_a"):
        return o.trait is not None
    for a in ("taxa", "taxa_grp", "trait"):
        if hasattr(type(o), a) and getattr(o, a) is None:
            return False
    for a in ("taxa", "trait"):
        x = getattr(o, a, None) if hasattr(type(o), a) else None
        if x is not None and len(set(x.tolist())) != len(x):
            return False
    return True


class NotTabular(Exception):
    pass


def _dictnames(store, name, key):
    names = {"beta": store.path(name + "-beta", ".csv"), "u_misc": store.path(name + "-umisc", ".csv"),
             "u_a": store.path(name + "-ua", ".csv")}
    if "Dominance" in key:
        names["u_d"] = store.path(name + "-ud", ".csv")
    return names


def write(store, o, key, st, fmt, loc):
    fam = family(key)
    if fmt == "hdf5":
        if st["via"] == "path":
            store.close_handle(st["file"])           # one writer at a time on a path
            o.to_hdf5(store.path(st["file"]), st["group"], overwrite=st.get("overwrite", True))
        elif st["via"] == "handle":
            o.to_hdf5(store.handle(st["file"]), st["group"], overwrite=st.get("overwrite", True))
        else:
            o.to_hdf5(store.memfile(st["file"]), st["group"], overwrite=st.get("overwrite", True))
        return
    if fmt == "csv":
        p = store.path(st["file"], ".csv")
        if fam == "bvmat":
            o.to_csv(p, unscale=True)
        elif fam == "gmap":
            o.to_csv(p, vrnt_genpos_units=gmap_units(loc))
        else:
            o.to_csv(p)
    elif fmt == "pandas":
        if fam == "bvmat":
            store.frames[loc] = o.to_pandas(unscale=True)
        elif fam == "gmap":
            store.frames[loc] = o.to_pandas(vrnt_genpos_units=gmap_units(loc))
        else:
            store.frames[loc] = o.to_pandas()
    elif fmt == "csv_dict":
        names = _dictnames(store, st["file"], key)
        if o.u_misc is None:
            names["u_misc"] = None
        o.to_csv_dict(names)
        store.frames[loc] = names
    elif fmt == "pandas_dict":
        store.frames[loc] = o.to_pandas_dict()
    else:
        raise ValueError(fmt)


def read(store, ent, loc):
    key, fmt = ent["key"], ent["fmt"]
    cls = type(ent["obj"])
    fam = family(key)
    if fmt == "hdf5":
        kw = {"gpmod": ent["gpmod"]} if key == "G_E_Phenotyping" else {}
        kind, fname, g = loc
        group = g if g != "" else None
        if kind == "mem":
            return cls.from_hdf5(store.memfile(fname), group, **kw)
        if fname in store.handles:
            return cls.from_hdf5(store.handles[fname], group, **kw)
        return cls.from_hdf5(store.path(fname), group, **kw)
    o = ent["obj"]
    ext = {}
    if key == "ExtendedGeneticMap":
        ext = {"vrnt_name_col": "name" if o.vrnt_name is not None else None, "vrnt_fncode_col": "fncode" if o.vrnt_fncode is not None else None}
    if fmt == "csv":
        p = store.path(loc[1], ".csv")
        if fam == "gmap":
            return cls.from_csv(p, vrnt_genpos_units=gmap_units(loc), **ext)
        return cls.from_csv(p)
    if fmt == "pandas":
        df = store.frames[loc]
        if fam == "gmap":
            return cls.from_pandas(df, vrnt_genpos_units=gmap_units(loc), **ext)
        return cls.from_pandas(df)
    if fmt == "csv_dict":
        return cls.from_csv_dict(store.frames[loc], model_name=o.model_name, hyperparams=o.hyperparams)
    if fmt == "pandas_dict":
        return cls.from_pandas_dict(store.frames[loc], model_name=o.model_name, hyperparams=o.hyperparams)
    raise ValueError(fmt)


# ---------------------------------------------------------------------------- equality
CSV_RTOL = 1e-12      # pandas' default (fast) CSV float parser is documented as not round-trip exact; errors of tens of ulps were observed


def _close(a, b, ulps=4, extra=0.0, rtol=0.0):
    a = numpy.asarray(a, dtype=float)
    b = numpy.asarray(b, dtype=float)
    if a.shape != b.shape:
        return False
    both_nan = numpy.isnan(a) & numpy.isnan(b)
    tol = (ulps * EPS + rtol) * numpy.maximum(numpy.abs(a), numpy.abs(b)) + extra
    ok = (numpy.abs(a - b) <= tol) | both_nan
    return bool(numpy.all(ok))


def _strs(x):
    return None if x is None else [None if v is None else str(v) for v in numpy.asarray(x).ravel().tolist()]


def _taxa_axes(o):
    k = type(o).__name__
    if hasattr(o, "square_taxa_axes"):
        return tuple(o.square_taxa_axes)
    return (getattr(o, "taxa_axis", 0),)


def compare(ent, back, fmt):
    """Returns a list of (clause, field, message); empty if equal under the format's equality."""
    if fmt == "hdf5":
        d = diff(ent["snap"], snap(back, skip=("spline", "rng")))
        out = []
        for path, a, b in d[:3]:
            field = path.split(".")[1] if path.count(".") >= 1 and path.startswith(".") else path
            out.append(("read-equals-last-write", field, "%s: written %s, read %s" % (path, _short(a), _short(b))))
        return out
    o = ent["frozen"]
    key = ent["key"]
    fam = family(key)
    rt = CSV_RTOL if fmt in ("csv", "csv_dict") else 0.0
    if type(back) is not type(o):
        return [("read-equals-last-write", "class", "read back a %s" % type(back).__name__)]
    if fam == "gmap":
        out = []
        for a, exact in (("vrnt_chrgrp", True), ("vrnt_phypos", True), ("vrnt_stop", True), ("vrnt_genpos", False), ("vrnt_name", True), ("vrnt_fncode", True)):
            if not hasattr(type(o), a):
                continue
            x, y = getattr(o, a), getattr(back, a)
            if (x is None) != (y is None):
                out.append(("read-equals-last-write", a, "%s: written %s, read %s" % (a, _short(x), _short(y))))
            elif x is not None:
                same = (_strs(x) == _strs(y)) if exact else _close(x, y, 8, rtol=rt)
                if not same:
                    out.append(("read-equals-last-write", a, "%s: written %s, read %s" % (a, _short(x), _short(y))))
        return out
    if fam == "gmod":
        out = []
        for a in ("beta", "u_misc", "u_a", "u_d"):
            if not hasattr(type(o), a):
                continue
            x, y = getattr(o, a), getattr(back, a)
            if (x is None) != (y is None) or (x is not None and not _close(x, y, 4, rtol=rt)):
                out.append(("read-equals-last-write", a, "%s: written %s, read %s" % (a, _short(x), _short(y))))
        if _strs(o.trait) != _strs(back.trait):
            out.append(("read-equals-last-write", "trait", "trait: written %s, read %s" % (_strs(o.trait), _strs(back.trait))))
        if o.model_name != back.model_name or snap(o.hyperparams) != snap(back.hyperparams):
            out.append(("read-equals-last-write", "params", "model_name/hyperparams differ"))
        return out
    # labelled matrices: taxa (possibly several square axes) x trait
    out = []
    t0, t1 = _strs(o.taxa), _strs(back.taxa)
    tr0, tr1 = _strs(getattr(o, "trait", None)), _strs(getattr(back, "trait", None))
    if sorted(t0) != sorted(t1 or []):
        return [("read-equals-last-write", "taxa", "taxa labels: written %s, read %s" % (t0, t1))]
    if tr0 is not None and sorted(tr0) != sorted(tr1 or []):
        return [("read-equals-last-write", "trait", "trait labels: written %s, read %s" % (tr0, tr1))]
    if t0 != t1:
        out.append(("order-not-preserved", "taxa", "taxa order: written %s, read %s" % (t0, t1)))
    if tr0 is not None and tr0 != tr1:
        out.append(("order-not-preserved", "trait", "trait order: written %s, read %s" % (tr0, tr1)))
    # group labels by taxon
    g0 = dict(zip(t0, numpy.asarray(o.taxa_grp).tolist()))
    g1 = dict(zip(t1, numpy.asarray(back.taxa_grp).tolist())) if back.taxa_grp is not None else None
    if g1 is None or any(int(g0[k]) != int(g1[k]) for k in g0):
        out.append(("read-equals-last-write", "taxa_grp", "taxa_grp by taxon: written %s, read %s" % (g0, g1)))
    # content, label-wise
    m0 = o.unscale() if fam == "bvmat" else o.mat
    m1 = back.unscale() if fam == "bvmat" else back.mat
    if m0.shape != m1.shape:
        out.append(("read-equals-last-write", "mat", "shape %r -> %r" % (m0.shape, m1.shape)))
        return out
    pt = [t1.index(x) for x in t0]
    m1a = m1
    for ax in _taxa_axes(o):
        m1a = numpy.take(m1a, pt, axis=ax)
    if tr0 is not None:
        ptr = [tr1.index(x) for x in tr0]
        for ax in _trait_axes(o):
            m1a = numpy.take(m1a, ptr, axis=ax)
    if fam == "bvmat":
        extra = 16 * EPS * (numpy.abs(numpy.asarray(o.location)) + numpy.abs(numpy.asarray(o.scale)) * (1 + numpy.abs(o.mat)))
        okm = _close(m0, m1a, 16, extra, rtol=rt)
    else:
        okm = _close(m0, m1a, 4, rtol=rt)
    if not okm:
        out.append(("read-equals-last-write", "mat", "cell values differ label-wise (max abs diff %.3g)" % float(numpy.nanmax(numpy.abs(m0 - m1a)))))
    return out


def _trait_axes(o):
    if hasattr(o, "square_trait_axes"):
        return tuple(o.square_trait_axes)
    return (getattr(o, "trait_axis", o.mat.ndim - 1),)


def _short(x):
    s = repr(x)
    return s if len(s) < 90 else s[:87] + "..."


# ---------------------------------------------------------------------------- VCF
def vcf_check(store, st):
    """Write a VCF with phased diploid GT calls and import it with from_vcf."""
    import random
    from pybrops.popgen.gmat.DenseGenotypeMatrix import DenseGenotypeMatrix
    from pybrops.popgen.gmat.DensePhasedGenotypeMatrix import DensePhasedGenotypeMatrix
    R = random.Random(st["seed"])
    nt, nv = st["ntaxa"], st["nvrnt"]
    samples = []
    for i in range(nt):
        samples.append(R.choice(["S%d" % i, "line-%d" % i, "s_%d.x" % i, "Zea%d" % i]))
    nchr = R.randint(1, min(3, nv))
    chroms = sorted(R.randint(1, 9) for _ in range(nchr))
    chroms = sorted(set(chroms))
    recs = []
    for j in range(nv):
        c = chroms[(j * len(chroms)) // nv]
        # single-base substitutions, insertions, and records whose REF spans several bases (deletions, multi-base substitutions)
        ref = R.choice("ACGT") if R.random() < 0.65 else "".join(R.choice("ACGT") for _ in range(R.randint(2, 5)))
        recs.append([c, 0, "snp%d" % j if R.random() < 0.8 else "rs%d_%s" % (j, R.choice("ab")), ref])
    pos = {}
    for r in recs:
        pos[r[0]] = pos.get(r[0], 0) + R.randint(6, 500)
        r[1] = pos[r[0]]
    calls = [[(R.randint(0, 1), R.randint(0, 1)) for _ in range(nt)] for _ in range(nv)]
    lines = ["##fileformat=VCFv4.2"]
    for c in chroms:
        lines.append("##contig=<ID=%d>" % c)
    lines.append('##FORMAT=<ID=GT,Number=1,Type=String,Description="Genotype">')
    lines.append("#CHROM\tPOS\tID\tREF\tALT\tQUAL\tFILTER\tINFO\tFORMAT\t" + "\t".join(samples))
    for r, cs in zip(recs, calls):
        if len(r[3]) == 1:
            alt = ("A" if r[3] != "A" else "C") if R.random() < 0.7 else r[3] + "".join(R.choice("ACGT") for _ in range(R.randint(1, 3)))
        else:
            alt = r[3][0] if R.random() < 0.6 else "".join(("A" if b != "A" else "C") for b in r[3])
        lines.append("%d\t%d\t%s\t%s\t%s\t.\tPASS\t.\tGT\t%s" % (r[0], r[1], r[2], r[3], alt, "\t".join("%d|%d" % c for c in cs)))
    path = store.path("in%d" % st["seed"], ".vcf")
    with open(path, "w") as f:
        f.write("\n".join(lines) + "\n")
    cls = DensePhasedGenotypeMatrix if st["phased_cls"] else DenseGenotypeMatrix
    C = cls.__name__ + ".from_vcf"
    try:
        g = cls.from_vcf(path, auto_group_vrnt=st["auto_group"])
    except Exception as e:
        return [("vcf-import", C, "raises:%s" % type(e).__name__, "%s: %s" % (type(e).__name__, e))]
    out = []
    if _strs(g.taxa) != samples:
        out.append(("vcf-import", C, "field=taxa", "sample names %s imported as %s" % (samples, _strs(g.taxa))))
    exp_chr = [r[0] for r in recs]
    exp_pos = [r[1] for r in recs]
    exp_id = [r[2] for r in recs]
    if numpy.asarray(g.vrnt_chrgrp).astype(int).tolist() != exp_chr:
        out.append(("vcf-import", C, "field=vrnt_chrgrp", "CHROM %s imported as %s" % (exp_chr, numpy.asarray(g.vrnt_chrgrp).tolist())))
    if numpy.asarray(g.vrnt_phypos).astype(int).tolist() != exp_pos:
        out.append(("vcf-import", C, "field=vrnt_phypos", "POS %s imported as %s" % (exp_pos, numpy.asarray(g.vrnt_phypos).tolist())))
    if _strs(g.vrnt_name) != exp_id:
        out.append(("vcf-import", C, "field=vrnt_name", "ID %s imported as %s" % (exp_id, _strs(g.vrnt_name))))
    exp = numpy.array([[[calls[j][i][p] for j in range(nv)] for i in range(nt)] for p in range(2)], dtype=int)
    if st["phased_cls"]:
        if g.mat.shape != exp.shape or not numpy.array_equal(g.mat.astype(int), exp):
            out.append(("vcf-import", C, "field=mat", "phased allele calls differ from the file"))
    else:
        if g.mat.shape != exp.sum(0).shape or not numpy.array_equal(g.mat.astype(int), exp.sum(0)):
            out.append(("vcf-import", C, "field=mat", "allele dosages differ from the file"))
    return out
