"""Entry point:  python -m sim.main <Cxx> [--tier quick|thorough] [--replay FILE] [--runs N]

Exit 0: property held on everything explored (KNOWN-FINDING lines allowed).
Exit 1: at least one `VIOLATION property=<id> replay=<path>` line (each confirmed by
        replay in a fresh interpreter).
Exit 2: harness error (worker death, hard timeout, non-replayable failure).
"""
import argparse
import os
import sys


def main(argv=None):
    ap = argparse.ArgumentParser()
    ap.add_argument("prop")
    ap.add_argument("--tier", default="quick", choices=["quick", "thorough"])
    ap.add_argument("--replay")
    ap.add_argument("--runs", type=int)
    ap.add_argument("--workers", type=int)
    ap.add_argument("--wall", type=float)
    ap.add_argument("--no-evidence", action="store_true")
    a = ap.parse_args(argv)
    if os.environ.get("PYTHONHASHSEED") is None:
        # fixed hash seed: replay must not depend on str hashing order
        os.environ["PYTHONHASHSEED"] = "0"
        os.execv(sys.executable, [sys.executable, "-m", "sim.main"] + (argv or sys.argv[1:]))
    tier = os.environ.get("VERIF_TIER") or a.tier
    if tier not in ("quick", "thorough"):
        tier = a.tier
    vseed = int(os.environ.get("VERIF_SEED", "0") or 0)
    from sim import entropy
    entropy.install()
    from sim import core
    if a.prop not in core.CHECKS:
        print("unknown property " + a.prop, file=sys.stderr)
        return 2
    if a.replay:
        doc, out, hit = core.replay_file(a.replay)
        for v in out["violations"]:
            print("  violation clause=%s component=%s step=%s: %s" % (v["clause"], v["component"], v.get("step"), v["message"]))
            print("  signature=%s" % v["signature"])
        if hit:
            ke = core.known_entry(doc["property"], hit[0]["signature"])
            print("REPRODUCED signature=%s digest=%s" % (hit[0]["signature"], out["digest"][:16]))
            if ke is not None:
                print("KNOWN-FINDING: property=%s %s" % (doc["property"], ke.get("what", "")))
            print("VIOLATION property=%s replay=%s" % (doc["property"], a.replay))
            return 1
        print("NOT-REPRODUCED expected=%s digest=%s" % (doc.get("signature"), out["digest"][:16]))
        return 0
    code, _ = core.run_check(a.prop, tier, vseed, nruns=a.runs, workers=a.workers,
                             write_evidence=not a.no_evidence, wall=a.wall)
    return code


if __name__ == "__main__":
    _code = main()
    # leave without the interpreter's exit handlers: concurrent.futures joins its worker processes there, and a worker
    # that never received its stop sentinel would block the exit for ever (seen once: all workers idle, parent in waitpid)
    sys.stdout.flush()
    sys.stderr.flush()
    os._exit(int(_code or 0))
