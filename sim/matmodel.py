"""Entity-tracking reference model for labelled matrices (C03, C15).

Every row/column along a logical axis (taxa, vrnt, trait, phase, aux) is an
*entity* with a hidden integer id and the labels it was created with.  Data cells
are a pure function of the ids that address them:

  float classes : cell = sum_k id_k * 100**k   (exact; ids decoded back from the data)
  int8 classes  : cell = mix(ids) in {0,1} / {0,1,2}; entities identified by unique
                  taxa / vrnt_name labels ("T<id>", "V<id>")
  bv classes    : raw value = float payload, stored standardised; entities identified
                  by unique taxa / trait labels; data compared through unscale()

The model applies operations to id lists with plain Python list operations.
"""
import copy

import numpy

from . import compat  # noqa: F401
from .world import obj

from pybrops.core.mat.DenseTaxaMatrix import DenseTaxaMatrix
from pybrops.core.mat.DenseVariantMatrix import DenseVariantMatrix
from pybrops.core.mat.DenseTraitMatrix import DenseTraitMatrix
from pybrops.core.mat.DenseTaxaVariantMatrix import DenseTaxaVariantMatrix
from pybrops.core.mat.DensePhasedTaxaVariantMatrix import DensePhasedTaxaVariantMatrix
from pybrops.core.mat.DenseTaxaTraitMatrix import DenseTaxaTraitMatrix
from pybrops.core.mat.DenseSquareTaxaMatrix import DenseSquareTaxaMatrix
from pybrops.core.mat.DenseSquareTaxaTraitMatrix import DenseSquareTaxaTraitMatrix
from pybrops.popgen.gmat.DenseGenotypeMatrix import DenseGenotypeMatrix
from pybrops.popgen.gmat.DensePhasedGenotypeMatrix import DensePhasedGenotypeMatrix
from pybrops.popgen.bvmat.DenseBreedingValueMatrix import DenseBreedingValueMatrix
from pybrops.popgen.bvmat.DenseEstimatedBreedingValueMatrix import DenseEstimatedBreedingValueMatrix
from pybrops.popgen.bvmat.DenseGenomicEstimatedBreedingValueMatrix import DenseGenomicEstimatedBreedingValueMatrix
from pybrops.popgen.cmat.DenseMolecularCoancestryMatrix import DenseMolecularCoancestryMatrix
from pybrops.popgen.cmat.DenseVanRadenCoancestryMatrix import DenseVanRadenCoancestryMatrix
from pybrops.model.vmat.DenseTwoWayDHAdditiveGeneticVarianceMatrix import DenseTwoWayDHAdditiveGeneticVarianceMatrix
from pybrops.model.vmat.DenseThreeWayDHAdditiveGenicVarianceMatrix import DenseThreeWayDHAdditiveGenicVarianceMatrix
from pybrops.model.vmat.DenseTwoWayDHAdditiveGenicVarianceMatrix import DenseTwoWayDHAdditiveGenicVarianceMatrix
from pybrops.model.vmat.DenseThreeWayDHAdditiveGeneticVarianceMatrix import DenseThreeWayDHAdditiveGeneticVarianceMatrix
from pybrops.model.vmat.DenseFourWayDHAdditiveGeneticVarianceMatrix import DenseFourWayDHAdditiveGeneticVarianceMatrix
from pybrops.model.vmat.DenseFourWayDHAdditiveGenicVarianceMatrix import DenseFourWayDHAdditiveGenicVarianceMatrix
from pybrops.model.vmat.DenseDihybridDHAdditiveGeneticVarianceMatrix import DenseDihybridDHAdditiveGeneticVarianceMatrix
from pybrops.model.vmat.DenseDihybridDHAdditiveGenicVarianceMatrix import DenseDihybridDHAdditiveGenicVarianceMatrix
from pybrops.popgen.cmat.DenseYangCoancestryMatrix import DenseYangCoancestryMatrix

# class key -> (class, layout of mat axes, kind)
ADAPT = {
    "DenseTaxaMatrix": (DenseTaxaMatrix, ("taxa", "aux"), "float"),
    "DenseVariantMatrix": (DenseVariantMatrix, ("vrnt", "aux"), "float"),
    "DenseTraitMatrix": (DenseTraitMatrix, ("trait", "aux"), "float"),
    "DenseTaxaVariantMatrix": (DenseTaxaVariantMatrix, ("taxa", "vrnt"), "float"),
    "DensePhasedTaxaVariantMatrix": (DensePhasedTaxaVariantMatrix, ("phase", "taxa", "vrnt"), "float"),
    "DenseTaxaTraitMatrix": (DenseTaxaTraitMatrix, ("taxa", "trait"), "float"),
    "DenseSquareTaxaMatrix": (DenseSquareTaxaMatrix, ("taxa", "taxa"), "float"),
    "DenseSquareTaxaTraitMatrix": (DenseSquareTaxaTraitMatrix, ("taxa", "taxa", "trait"), "float"),
    "DenseGenotypeMatrix": (DenseGenotypeMatrix, ("taxa", "vrnt"), "int8"),
    "DensePhasedGenotypeMatrix": (DensePhasedGenotypeMatrix, ("phase", "taxa", "vrnt"), "int8"),
    "DenseBreedingValueMatrix": (DenseBreedingValueMatrix, ("taxa", "trait"), "bv"),
    "DenseEstimatedBreedingValueMatrix": (DenseEstimatedBreedingValueMatrix, ("taxa", "trait"), "bv"),
    "DenseGenomicEstimatedBreedingValueMatrix": (DenseGenomicEstimatedBreedingValueMatrix, ("taxa", "trait"), "bv"),
    "DenseMolecularCoancestryMatrix": (DenseMolecularCoancestryMatrix, ("taxa", "taxa"), "float"),
    "DenseVanRadenCoancestryMatrix": (DenseVanRadenCoancestryMatrix, ("taxa", "taxa"), "float"),
    "DenseTwoWayDHAdditiveGeneticVarianceMatrix": (DenseTwoWayDHAdditiveGeneticVarianceMatrix, ("taxa", "taxa", "trait"), "float"),
    "DenseThreeWayDHAdditiveGenicVarianceMatrix": (DenseThreeWayDHAdditiveGenicVarianceMatrix, ("taxa", "taxa", "taxa", "trait"), "float"),
    "DenseTwoWayDHAdditiveGenicVarianceMatrix": (DenseTwoWayDHAdditiveGenicVarianceMatrix, ("taxa", "taxa", "trait"), "float"),
    "DenseThreeWayDHAdditiveGeneticVarianceMatrix": (DenseThreeWayDHAdditiveGeneticVarianceMatrix, ("taxa", "taxa", "taxa", "trait"), "float"),
    "DenseFourWayDHAdditiveGeneticVarianceMatrix": (DenseFourWayDHAdditiveGeneticVarianceMatrix, ("taxa", "taxa", "taxa", "taxa", "trait"), "float"),
    "DenseFourWayDHAdditiveGenicVarianceMatrix": (DenseFourWayDHAdditiveGenicVarianceMatrix, ("taxa", "taxa", "taxa", "taxa", "trait"), "float"),
    "DenseDihybridDHAdditiveGeneticVarianceMatrix": (DenseDihybridDHAdditiveGeneticVarianceMatrix, ("taxa", "taxa", "trait"), "float"),
    "DenseDihybridDHAdditiveGenicVarianceMatrix": (DenseDihybridDHAdditiveGenicVarianceMatrix, ("taxa", "taxa", "trait"), "float"),
    "DenseYangCoancestryMatrix": (DenseYangCoancestryMatrix, ("taxa", "taxa"), "float"),
}

LABELS = {
    "taxa": ["taxa", "taxa_grp"],
    "vrnt": ["vrnt_chrgrp", "vrnt_phypos", "vrnt_name", "vrnt_genpos", "vrnt_xoprob", "vrnt_hapgrp", "vrnt_hapalt", "vrnt_hapref", "vrnt_mask"],
    "trait": ["trait"],
    "phase": [],
    "aux": [],
}
GROUPKEY = {"taxa": "taxa_grp", "vrnt": "vrnt_chrgrp"}
GROUPMETA = {"taxa": "taxa_grp", "vrnt": "vrnt_chrgrp"}
SORTKEYS = {"taxa": ("taxa_grp", "taxa"), "vrnt": ("vrnt_chrgrp", "vrnt_phypos"), "trait": ("trait",)}   # primary first


def is_square(key):
    return ADAPT[key][1].count("taxa") > 1


def logical_axes(key):
    out = []
    for a in ADAPT[key][1]:
        if a not in out:
            out.append(a)
    return out


def mat_axes(key, axis):
    return [i for i, a in enumerate(ADAPT[key][1]) if a == axis]


# ---------------------------------------------------------------------------- entities
def make_label(R, axis, name, eid, cfg):
    """Label value an entity is created with (drawn from the run's label style)."""
    if name == "taxa":
        if cfg["unique_names"]:
            return "T%d" % eid
        return R.choice(["ta", "tb", "tc", "dé", "T%d" % eid])
    if name == "taxa_grp":
        return R.randint(1, 3)
    if name == "vrnt_chrgrp":
        return R.randint(1, 3)
    if name == "vrnt_phypos":
        return R.choice([R.randint(1, 9), R.randint(1, 1000)])
    if name == "vrnt_name":
        if cfg["unique_names"]:
            return "V%d" % eid
        return R.choice(["ma", "mb", "V%d" % eid])
    if name == "vrnt_genpos":
        return R.choice([0.0, 0.1, 0.25, R.random()])
    if name == "vrnt_xoprob":
        return R.choice([0.5, 0.0, 0.1, 0.3])
    if name == "vrnt_hapgrp":
        return R.randint(0, 3)
    if name in ("vrnt_hapalt", "vrnt_hapref"):
        return R.choice("ACGT")
    if name == "vrnt_mask":
        return R.random() < 0.7
    if name == "trait":
        if cfg["unique_names"]:
            return "R%d" % eid
        return R.choice(["ya", "yb", "R%d" % eid])
    raise KeyError(name)


def _larr(name, vals):
    if name in ("taxa", "vrnt_name", "vrnt_hapalt", "vrnt_hapref", "trait"):
        return obj(vals)
    if name == "vrnt_mask":
        return numpy.array(vals, dtype=bool)
    if name in ("vrnt_genpos", "vrnt_xoprob"):
        return numpy.array(vals, dtype=float)
    return numpy.array(vals, dtype=int)


def payload(key, idlists):
    """Data array for the given id lists (one list per mat axis)."""
    kind = ADAPT[key][2]
    shape = tuple(len(l) for l in idlists)
    if kind in ("float", "bv"):
        out = numpy.zeros(shape, dtype=float)
        for k, l in enumerate(idlists):
            sh = [1] * len(shape)
            sh[k] = len(l)
            out = out + (numpy.array(l, dtype=float) * (100.0 ** k)).reshape(sh)
        if kind == "bv":
            out = out * 0.37 + 5.0
        return out
    acc = numpy.zeros(shape, dtype=numpy.int64)
    primes = [7919, 104729, 1299709, 15485863, 32452843, 49979687]
    for k, l in enumerate(idlists):
        sh = [1] * len(shape)
        sh[k] = len(l)
        acc = acc + (numpy.array(l, dtype=numpy.int64) * primes[k]).reshape(sh)
    acc = (acc * 2654435761) >> 7
    m = 2 if "phase" in ADAPT[key][1] else 3
    return (acc % m).astype("int8")


class Model:
    """ids per logical axis, labels per entity, fresh-id counter."""

    def __init__(self, key, cfg):
        self.key = key
        self.cfg = cfg
        self.ids = {}
        self.ent = {}            # (axis, id) -> {label name: value}
        self.next = 1

    def fresh(self, R, axis, n):
        out = []
        for _ in range(n):
            eid = self.next
            self.next += 1
            self.ent[(axis, eid)] = {name: make_label(R, axis, name, eid, self.cfg) for name in LABELS[axis] if self.cfg["present"].get(name, True)}
            out.append(eid)
        return out

    def clone(self):
        m = Model(self.key, self.cfg)
        m.ids = {a: list(l) for a, l in self.ids.items()}
        m.ent = self.ent
        m.next = self.next
        return m

    def idlists(self, override=None):
        lay = ADAPT[self.key][1]
        ids = dict(self.ids)
        if override:
            ids.update(override)
        return [ids[a] for a in lay]

    def labels_kw(self, ids_by_axis):
        kw = {}
        for axis in logical_axes(self.key):
            for name in LABELS[axis]:
                if self.cfg["present"].get(name, True):
                    kw[name] = _larr(name, [self.ent[(axis, i)][name] for i in ids_by_axis[axis]])
                else:
                    kw[name] = None
        return kw

    def build(self, override=None):
        """Real object holding the entities of this model (optionally with other ids on some axes)."""
        cls, lay, kind = ADAPT[self.key]
        ids = dict(self.ids)
        if override:
            ids.update(override)
        mat = payload(self.key, [ids[a] for a in lay])
        kw = self.labels_kw(ids)
        if kind == "bv":
            return cls.from_numpy(mat, **kw)
        return cls(mat, **kw)


# ---------------------------------------------------------------------------- observation
def decode(key, o, model):
    """Recover the id list along every logical axis from the real object.

    Returns (ids_by_axis, problems).  float: from the data; int8 / bv: from unique labels."""
    cls, lay, kind = ADAPT[key]
    mat = o.mat
    probs = []
    ids = {}
    if mat.ndim != len(lay):
        return None, ["mat.ndim %d, expected %d" % (mat.ndim, len(lay))]
    if kind == "float":
        if 0 in mat.shape:
            for k, a in enumerate(lay):
                ids.setdefault(a, [] if mat.shape[k] == 0 else None)
            # cannot decode the non-empty axes of an empty matrix from data: leave unknown
            return ids, probs
        per_mat_axis = []
        for k in range(mat.ndim):
            ix = [0] * mat.ndim
            ix[k] = slice(None)
            v = mat[tuple(ix)]
            per_mat_axis.append([int(round(x)) // (100 ** k) % 100 for x in v.tolist()])
        exp = payload(key, per_mat_axis)
        if exp.shape != mat.shape or not numpy.array_equal(exp, mat):
            probs.append("data cells are not those of the entities addressing them")
        for k, a in enumerate(lay):
            if a in ids and ids[a] != per_mat_axis[k]:
                probs.append("square axes hold different entities: %s vs %s" % (ids[a], per_mat_axis[k]))
            ids.setdefault(a, per_mat_axis[k])
        return ids, probs
    # label identification
    for a, lname, pre in (("taxa", "taxa", "T"), ("vrnt", "vrnt_name", "V"), ("trait", "trait", "R")):
        if a in lay:
            lab = getattr(o, lname)
            if lab is None:
                return None, ["%s missing: entities cannot be identified" % lname]
            try:
                ids[a] = [int(str(x)[1:]) for x in lab.tolist()]
            except Exception:
                return None, ["%s holds foreign labels %s" % (lname, lab.tolist())]
    for k, a in enumerate(lay):
        if a not in ids:
            ids[a] = model.ids[a] if len(model.ids[a]) == mat.shape[k] else None
    if any(v is None for v in ids.values()):
        return ids, probs
    exp = payload(key, [ids[a] for a in lay])
    if kind == "bv":
        try:
            got = o.unscale()
        except Exception as e:
            return ids, ["unscale() raised %s" % type(e).__name__]
        if got.shape != exp.shape or not numpy.allclose(got, exp, rtol=1e-9, atol=1e-9):
            probs.append("unscaled values are not the raw values of the entities (max diff %.3g)" %
                         (float(numpy.max(numpy.abs(got - exp))) if got.shape == exp.shape and got.size else float("nan")))
    else:
        if exp.shape != mat.shape or not numpy.array_equal(exp, mat):
            probs.append("data cells are not those of the entities addressing them")
    return ids, probs


def check_labels(key, o, model, ids):
    """Every position carries the labels its entity was created with."""
    probs = []
    for axis in logical_axes(key):
        if ids.get(axis) is None:
            continue
        n = len(ids[axis])
        for name in LABELS[axis]:
            arr = getattr(o, name, None)
            present = model.cfg["present"].get(name, True)
            if not present:
                if arr is not None:
                    probs.append((name, "%s appeared although the matrix was created without it" % name))
                continue
            if arr is None:
                probs.append((name, "%s disappeared" % name))
                continue
            if len(arr) != n:
                probs.append((name, "%s has length %d, axis has %d entries" % (name, len(arr), n)))
                continue
            want = [model.ent[(axis, i)][name] if (axis, i) in model.ent else "<unknown entity>" for i in ids[axis]]
            got = arr.tolist()
            if name == "taxa" and any(w is None for w in want):
                # entities adjoined without a name carry None
                if [None if x is None else str(x) for x in got] != [None if x is None else str(x) for x in want]:
                    probs.append((name, "%s reads %s, the entities at those positions were created with %s" % (name, got, want)))
                continue
            if name in ("vrnt_genpos", "vrnt_xoprob"):
                same = all(float(a) == float(b) for a, b in zip(got, want))
            elif name == "vrnt_mask":
                same = [bool(x) for x in got] == [bool(x) for x in want]
            elif name in ("taxa", "vrnt_name", "vrnt_hapalt", "vrnt_hapref", "trait"):
                same = [str(x) for x in got] == [str(x) for x in want]
            else:
                same = [int(x) for x in got] == [int(x) for x in want]
            if not same:
                probs.append((name, "%s reads %s, the entities at those positions were created with %s" % (name, got, want)))
    return probs


def check_groups(key, o):
    """If the object says it is grouped along an axis, the metadata must be a true contiguous partition."""
    probs = []
    for axis, gname in GROUPMETA.items():
        if axis not in ADAPT[key][1]:
            continue
        try:
            g = getattr(o, "is_grouped_" + axis)()
        except Exception as e:
            probs.append((axis, "is_grouped_%s raised %s" % (axis, type(e).__name__)))
            continue
        if not g:
            continue
        lab = getattr(o, gname)
        nm, st, sp, ln = (getattr(o, "%s_%s" % (gname, s)) for s in ("name", "stix", "spix", "len"))
        if lab is None or nm is None or st is None or sp is None or ln is None:
            probs.append((axis, "reports grouped but %s or its metadata is None" % gname))
            continue
        lab = numpy.asarray(lab)
        n = len(lab)
        nm, st, sp, ln = [numpy.asarray(x).tolist() for x in (nm, st, sp, ln)]
        ok = len(nm) == len(st) == len(sp) == len(ln) and len(set(nm)) == len(nm)
        if ok and n == 0:
            ok = len(nm) == 0
        elif ok:
            ok = len(nm) > 0 and st[0] == 0 and sp[-1] == n and all(sp[i] == st[i + 1] for i in range(len(st) - 1))
            ok = ok and all(l == b - a and l > 0 for l, a, b in zip(ln, st, sp))
            ok = ok and all(all(x == nm[i] for x in lab[st[i]:sp[i]].tolist()) for i in range(len(nm)))
        if not ok:
            probs.append((axis, "reports grouped along %s but names=%s stix=%s spix=%s len=%s do not partition %s=%s" % (axis, nm, st, sp, ln, gname, lab.tolist())))
    return probs


def sort_keys_of(model, axis, ids):
    names = [n for n in SORTKEYS.get(axis, ()) if model.cfg["present"].get(n, True)]
    return names, [tuple(model.ent[(axis, i)][n] for n in names) for i in ids]


# ---------------------------------------------------------------------------- index normalisation
def norm_delete(n, spec):
    """Set of positions removed by numpy.delete(arr, obj) for our argument forms."""
    kind, val = spec
    if kind in ("int", "npint"):
        return {val % n} if -n <= val < n else None
    if kind == "slice":
        return set(range(n)[slice(*val)])
    if kind in ("list", "ndarray"):
        if any(not (-n <= v < n) for v in val):
            return None
        return {v % n for v in val}
    if kind == "mask":
        return {i for i, b in enumerate(val) if b} if len(val) == n else None
    raise ValueError(kind)


def real_index(spec):
    kind, val = spec
    if kind == "int":
        return int(val)
    if kind == "npint":
        return numpy.int64(val)
    if kind == "slice":
        return slice(*val)
    if kind == "list":
        return list(val)
    if kind == "ndarray":
        return numpy.array(val, dtype=int)
    if kind == "mask":
        return numpy.array(val, dtype=bool)
    raise ValueError(kind)
