"""Simulator core: seeds, batch runner, digests, minimisation, replay, evidence.

A *check module* (sim/checks/cXX_*.py) provides

    PROP            property id, e.g. "C20"
    RULE            text: how scenarios are generated, what counts as distinct / non-trivial
    RUNS            {"quick": n, "thorough": n}       number of simulated runs
    WALL            {"quick": s, "thorough": s}       wall-clock safety cap (seconds)
    COMPONENTS      {"real": [...], "stub": [...]}
    ASSUMPTIONS     [...]
    generate(R, tier) -> scenario      JSON-able dict, drawn only from random.Random R
    execute(sc)       -> outcome dict  pure function of the scenario and of /repo's code
    shrink(sc)        -> iterable of simpler candidate scenarios (optional)

The outcome dict has: violations (list of dicts with clause, component, signature,
message, step), log (JSON-able event list; its SHA-256 is the run digest), trace
(abstract trace key), nontrivial (bool), faults / probes / sim (name -> number).

One integer decides everything: VERIF_SEED -> per-run seed -> random.Random ->
scenario.  Logging never draws from a PRNG and never reads a clock.
"""
import concurrent.futures as cf
import contextlib
import io
import faulthandler
import hashlib
import importlib
import json
import multiprocessing
import os
import random
import signal
import subprocess
import sys
import traceback

from . import compat  # noqa: F401  (NumPy aliases before pybrops is imported)
from . import entropy

VERIF = os.path.dirname(os.path.dirname(os.path.abspath(__file__)))
REPLAYS = os.environ.get("VERIF_REPLAYS") or os.path.join(VERIF, "replays")     # the self-tests point this at a scratch directory
EVIDENCE = os.path.join(VERIF, "evidence")
FINDINGS = os.path.join(VERIF, "known_findings.json")

CHECKS = {
    "C01": "sim.checks.c01_mendel",
    "C02": "sim.checks.c02_recomb",
    "C03": "sim.checks.c03_labels",
    "C06": "sim.checks.c06_optim",
    "C07": "sim.checks.c07_select",
    "C08": "sim.checks.c08_repro",
    "C10": "sim.checks.c10_limits",
    "C14": "sim.checks.c14_pheno",
    "C15": "sim.checks.c15_bvscale",
    "C16": "sim.checks.c16_persist",
    "C17": "sim.checks.c17_sampling",
    "C20": "sim.checks.c20_loop",
}


# --------------------------------------------------------------------------- seeds
def run_seed(verif_seed, prop, tier, i):
    h = hashlib.blake2b(("%d|%s|%s|%d" % (verif_seed, prop, tier, i)).encode(), digest_size=8)
    return int.from_bytes(h.digest(), "big")


def digest_of(log):
    return hashlib.sha256(json.dumps(log, sort_keys=True, default=_jsondefault).encode()).hexdigest()


def _jsondefault(o):
    import numpy
    if isinstance(o, numpy.integer):
        return int(o)
    if isinstance(o, numpy.floating):
        return float(o)
    if isinstance(o, numpy.bool_):
        return bool(o)
    if isinstance(o, numpy.ndarray):
        return o.tolist()
    if isinstance(o, (set, frozenset)):
        return sorted(o)
    if isinstance(o, bytes):
        return o.hex()
    raise TypeError("not JSON serialisable: %r" % type(o))


def dumps(o, **k):
    return json.dumps(o, default=_jsondefault, **k)


def adig(a):
    """Short digest of an array (dtype kind + shape + bytes) or None."""
    import numpy
    if a is None:
        return None
    a = numpy.asarray(a)
    if a.dtype == object:
        payload = repr([None if v is None else str(v) for v in a.ravel().tolist()]).encode()
    else:
        payload = numpy.ascontiguousarray(a).tobytes()
    h = hashlib.sha256()
    h.update(("%s%s" % (a.dtype.str, a.shape)).encode())
    h.update(payload)
    return h.hexdigest()[:16]


def viol(clause, component, cond, message, step=None, prop=None):
    """Build a violation record; signature = <clause>|<component>|<cond>."""
    return {"clause": clause, "component": component,
            "signature": "%s|%s|%s" % (clause, component, cond),
            "message": str(message)[:600], "step": step}


# --------------------------------------------------------------------------- one run
def load_check(prop):
    mod = importlib.import_module(CHECKS[prop])
    return mod


class RunTimeout(BaseException):
    """A single simulated run exceeded its real-time limit (possible non-termination)."""


def _on_alarm(signum, frame):
    raise RunTimeout("run exceeded its time limit (possible non-termination in the code under test)")


def execute_scenario(mod, sc):
    """Run one scenario under a clean global state; returns the outcome dict."""
    import numpy
    # every run starts from the same global generator state and entropy world, so
    # no state leaks between runs that share a worker process
    gs = int(sc.get("global_seed", 0)) & 0x7FFFFFFF
    random.seed(gs)
    numpy.random.seed(gs)
    limit = int(getattr(mod, "RUN_TIMEOUT", 30))
    old_handler = signal.signal(signal.SIGALRM, _on_alarm)
    signal.alarm(limit)
    try:
        # stray debug prints in the code under test must not reach the check's stdout
        with entropy.active(entropy.World(int(sc.get("entropy_world", 0)))), contextlib.redirect_stdout(io.StringIO()):
            out = mod.execute(sc)
    finally:
        signal.alarm(0)
        signal.signal(signal.SIGALRM, old_handler)
    out.setdefault("violations", [])
    out.setdefault("log", [])
    out.setdefault("trace", "")
    out.setdefault("nontrivial", True)
    out.setdefault("faults", {})
    out.setdefault("probes", {})
    out.setdefault("sim", {})
    out["digest"] = digest_of(out["log"])
    return out


def _add(d, e):
    for k, v in e.items():
        d[k] = d.get(k, 0) + v


def _chunk(args):
    prop, tier, vseed, idxs = args
    faulthandler.dump_traceback_later(900, exit=True)
    mod = load_check(prop)
    agg = {"n": 0, "faults": {}, "probes": {}, "sim": {}, "traces": set(), "digests": [],
           "viol": [], "nviol": 0, "errors": [], "samples": [], "nontrivial_traces": set()}
    for i in idxs:
        s = run_seed(vseed, prop, tier, i)
        try:
            sc = mod.generate(random.Random(s), tier)
            sc["run_index"] = i
            sc["run_seed"] = "%016x" % s
            out = execute_scenario(mod, sc)
        except BaseException as e:          # harness error, never a verdict
            agg["errors"].append({"run_index": i, "seed": "%016x" % s,
                                  "error": "%s: %s" % (type(e).__name__, e),
                                  "tb": traceback.format_exc()[-1500:]})
            if isinstance(e, (KeyboardInterrupt, SystemExit)):
                raise
            continue
        agg["n"] += 1
        _add(agg["faults"], out["faults"])
        _add(agg["probes"], out["probes"])
        _add(agg["sim"], out["sim"])
        tk = hashlib.sha256(out["trace"].encode()).hexdigest()[:12]
        agg["traces"].add(tk)
        if out["nontrivial"]:
            agg["nontrivial_traces"].add(tk)
        agg["digests"].append((i, out["digest"][:16]))
        if out["violations"]:
            agg["nviol"] += 1
            if len(agg["viol"]) < 40:
                agg["viol"].append((i, sc, out["violations"]))
        if len(agg["samples"]) < 1 and out["nontrivial"]:
            agg["samples"].append({"run_index": i, "scenario": _trim(sc), "trace": out["trace"][:300],
                                   "digest": out["digest"][:16]})
    faulthandler.cancel_dump_traceback_later()
    return agg


def _chunk_forked(args):
    """Run one chunk in a child forked from this (pristine) worker: whatever process-global state the library under
    test accumulates stays confined to the chunk, whose composition and order depend only on the run indices - so a
    verdict never depends on which worker happened to execute which chunk before."""
    import pickle
    r, w = os.pipe()
    pid = os.fork()
    if pid == 0:
        code = 0
        try:
            try:                                   # die with the worker (hard wall limit terminates workers)
                import ctypes
                ctypes.CDLL(None).prctl(1, 9)
            except Exception:
                pass
            os.close(r)
            data = pickle.dumps(_chunk(args), protocol=pickle.HIGHEST_PROTOCOL)
            with os.fdopen(w, "wb") as f:
                f.write(data)
        except BaseException:
            code = 3
            try:
                traceback.print_exc()
            except Exception:
                pass
        finally:
            os._exit(code)
    os.close(w)
    chunks = []
    with os.fdopen(r, "rb") as f:
        while True:
            b = f.read(1 << 20)
            if not b:
                break
            chunks.append(b)
    _, status = os.waitpid(pid, 0)
    data = b"".join(chunks)
    if not data:
        raise RuntimeError("chunk child exited without a result (status %r)" % (status,))
    return pickle.loads(data)


def _trim(sc, limit=2500):
    s = dumps(sc)
    if len(s) <= limit:
        return json.loads(s)
    return {"truncated_json": s[:limit]}


# --------------------------------------------------------------------------- findings
def load_findings():
    try:
        with open(FINDINGS) as f:
            return json.load(f).get("findings", [])
    except FileNotFoundError:
        return []


def known_entry(prop, signature):
    for e in load_findings():
        if e.get("property") == prop and e.get("status") == "known" and e.get("signature") == signature:
            return e
    return None


# --------------------------------------------------------------------------- minimise
def _has_sig(mod, sc, signature):
    try:
        out = execute_scenario(mod, sc)
    except BaseException:
        return None
    for v in out["violations"]:
        if v["signature"] == signature:
            return v
    return None


def minimise(mod, sc, signature, max_exec=400, wall=90.0):
    """ddmin over sc['steps'] (if any) then check-specific shrink candidates."""
    t0 = entropy.real_time()
    nexec = [0]

    def ok(c):
        if nexec[0] >= max_exec or entropy.real_time() - t0 > wall:
            return False
        nexec[0] += 1
        return _has_sig(mod, c, signature) is not None

    cur = json.loads(dumps(sc))
    if isinstance(cur.get("steps"), list) and len(cur["steps"]) > 1:
        steps = cur["steps"]
        n = 2
        while len(steps) >= 2:
            size = max(1, len(steps) // n)
            reduced = False
            for start in range(0, len(steps), size):
                cand_steps = steps[:start] + steps[start + size:]
                if not cand_steps:
                    continue
                cand = dict(cur, steps=cand_steps)
                if ok(cand):
                    steps = cand_steps
                    cur = cand
                    n = max(n - 1, 2)
                    reduced = True
                    break
            if not reduced:
                if size == 1:
                    break
                n = min(len(steps), n * 2)
    shrink = getattr(mod, "shrink", None)
    if shrink is not None:
        progress = True
        while progress:
            progress = False
            for cand in shrink(json.loads(dumps(cur))):
                if ok(cand):
                    cur = cand
                    progress = True
                    break
            if nexec[0] >= max_exec or entropy.real_time() - t0 > wall:
                break
    return cur, nexec[0]


def write_replay(prop, tier, vseed, sc, v, minimised_from=None, nexec=0):
    os.makedirs(REPLAYS, exist_ok=True)
    path = os.path.join(REPLAYS, "%s-%d-%s-%s.json" % (prop, vseed, sc.get("run_index", "x"), hashlib.sha256(v["signature"].encode()).hexdigest()[:6]))
    doc = {"format": 1, "property": prop, "tier": tier, "verif_seed": vseed,
           "clause": v["clause"], "component": v["component"], "signature": v["signature"],
           "expect": {"step": v.get("step"), "message": v["message"]},
           "minimised": {"from_steps": minimised_from,
                         "to_steps": len(sc["steps"]) if isinstance(sc.get("steps"), list) else None,
                         "executions": nexec},
           "scenario": sc}
    with open(path, "w") as f:
        f.write(dumps(doc, indent=1, sort_keys=True))
    return path


def replay_file(path, quiet=False):
    """Execute a replay file's scenario directly.  Returns (reproduced, violations)."""
    with open(path) as f:
        doc = json.load(f)
    mod = load_check(doc["property"])
    out = execute_scenario(mod, doc["scenario"])
    want = doc.get("signature")
    hit = [v for v in out["violations"] if want is None or v["signature"] == want]
    return doc, out, hit


def confirm_in_fresh_process(prop, path):
    """Replay in a fresh interpreter (other PYTHONHASHSEED): must fail the same way."""
    env = dict(os.environ, PYTHONHASHSEED="1", PYTHONPATH=VERIF + os.pathsep + os.environ.get("VERIF_REPO", "/repo"))
    env.pop("VERIF_NO_REEXEC", None)
    p = subprocess.run([sys.executable, "-m", "sim.main", prop, "--replay", path],
                       cwd=VERIF, env=env, capture_output=True, text=True, timeout=600)
    return p.returncode == 1 and "REPRODUCED" in p.stdout, p.stdout[-800:] + p.stderr[-800:]


# --------------------------------------------------------------------------- batch
def run_check(prop, tier, vseed, nruns=None, workers=None, write_evidence=True, wall=None):
    mod = load_check(prop)
    t0 = entropy.real_time()
    n = int(nruns if nruns is not None else mod.RUNS[tier])
    wall = float(wall if wall is not None else mod.WALL[tier])
    workers = int(workers or os.environ.get("VERIF_WORKERS") or os.cpu_count() or 4)
    # chunks stay short (at most ~1500 runs) so that, when the soft wall budget is reached, the chunks in flight finish well
    # inside the grace period whatever the load on the machine
    nchunks = max(1, min(n, max(workers * 8, -(-n // 1500))))
    chunks = [list(range(k, n, nchunks)) for k in range(nchunks)]
    print("SEED VERIF_SEED=%d property=%s tier=%s runs=%d workers=%d" % (vseed, prop, tier, n, workers), flush=True)
    agg = {"n": 0, "faults": {}, "probes": {}, "sim": {}, "traces": set(), "digests": [],
           "viol": [], "nviol": 0, "errors": [], "samples": [], "nontrivial_traces": set()}
    truncated = False
    harness_err = []
    ctx = multiprocessing.get_context("fork")
    ex = cf.ProcessPoolExecutor(max_workers=workers, mp_context=ctx)
    futs = {ex.submit(_chunk_forked, (prop, tier, vseed, c)) for c in chunks if c}
    pending = set(futs)
    hard = wall + max(180.0, 0.25 * wall)
    while pending:
        el = entropy.real_time() - t0
        if el > wall and not truncated:
            # soft budget: drop chunks that have not started, let running ones finish
            truncated = True
            for fu in list(pending):
                if fu.cancel():
                    pending.discard(fu)
            continue
        if el > hard:
            harness_err.append("hard wall limit %.0fs exceeded with %d of %d runs done" % (hard, agg["n"], n))
            for p in list(ex._processes.values()):
                p.terminate()
            break
        done, pending = cf.wait(pending, timeout=5.0, return_when=cf.FIRST_COMPLETED)
        for fu in done:
            try:
                a = fu.result()
            except BaseException as e:
                harness_err.append("worker died: %s: %s" % (type(e).__name__, e))
                continue
            agg["n"] += a["n"]
            for k in ("faults", "probes", "sim"):
                _add(agg[k], a[k])
            agg["traces"] |= a["traces"]
            agg["nontrivial_traces"] |= a["nontrivial_traces"]
            agg["digests"] += a["digests"]
            agg["viol"] += a["viol"]
            agg["nviol"] += a["nviol"]
            agg["errors"] += a["errors"]
            agg["samples"] += a["samples"]
    procs = list((getattr(ex, "_processes", None) or {}).values())
    ex.shutdown(wait=False, cancel_futures=True)
    for p in procs:                                   # every result is in: the workers are not needed any more
        try:
            p.terminate()
        except Exception:
            pass
    if agg["n"] == 0 and not harness_err:
        harness_err.append("no run completed")
    for e in agg["errors"][:5]:
        harness_err.append("run %s seed %s: %s\n%s" % (e["run_index"], e["seed"], e["error"], e["tb"]))

    # ---- violations: one replay per distinct signature, minimised and confirmed
    agg["viol"].sort(key=lambda t: t[0])
    seen = {}
    for i, sc, vs in agg["viol"]:
        for v in vs:
            seen.setdefault(v["signature"], (i, sc, v))
    reported, known_lines, exit_code = [], [], 0
    extra_sigs = []
    for sig in sorted(seen):
        i, sc, v = seen[sig]
        ke = known_entry(prop, sig)
        if ke is not None:
            known_lines.append("KNOWN-FINDING: property=%s %s [%s]" % (prop, ke.get("what", ""), sig))
            continue
        if len(reported) >= int(os.environ.get("VERIF_MAX_REPORT", "8")):
            # beyond the cap: still a violation, reported with its un-minimised replay
            extra_sigs.append((sig, write_replay(prop, tier, vseed, sc, v, None, 0), v))
            continue
        from_steps = len(sc["steps"]) if isinstance(sc.get("steps"), list) else None
        msc, nexec = minimise(mod, sc, sig)
        v2 = _has_sig(mod, msc, sig) or v
        path = write_replay(prop, tier, vseed, msc, v2, from_steps, nexec)
        okc, tail = confirm_in_fresh_process(prop, path)
        if not okc:
            path = write_replay(prop, tier, vseed, sc, v, from_steps, 0)
            okc, tail = confirm_in_fresh_process(prop, path)
        if not okc:
            harness_err.append("violation %s (run %d) did not replay in a fresh interpreter:\n%s" % (sig, i, tail))
            continue
        reported.append((sig, path, v2))
    for line in known_lines:
        print(line)
    for sig, path, v in reported:
        print("  violation clause=%s component=%s step=%s: %s" % (v["clause"], v["component"], v.get("step"), v["message"]))
        print("  signature=%s" % sig)
        print("VIOLATION property=%s replay=%s" % (prop, path))
    for sig, path, v in extra_sigs:
        print("  violation (not minimised; cap VERIF_MAX_REPORT reached) signature=%s" % sig)
        print("VIOLATION property=%s replay=%s" % (prop, path))
    reported += extra_sigs
    if reported:
        exit_code = 1
    elif harness_err:
        exit_code = 2
    for h in harness_err:
        print("HARNESS-ERROR: " + h, file=sys.stderr)

    wall_s = entropy.real_time() - t0
    if write_evidence:
        os.makedirs(EVIDENCE, exist_ok=True)
        agg["digests"].sort()
        all_dig = hashlib.sha256(repr(agg["digests"]).encode()).hexdigest()[:32]
        ev = {
            "property_id": prop, "tier": tier, "seed": vseed, "level": "exploration",
            "coverage": {
                "evaluations": agg["n"],
                "distinct_nontrivial": len(agg["nontrivial_traces"]),
                "rule": mod.RULE,
                "samples": agg["samples"][:3],
                "distinct_traces": len(agg["traces"]),
                "distinct_run_digests": len({d for _, d in agg["digests"]}),
                "batch_digest": all_dig,
                "runs_per_hour": int(agg["n"] / max(wall_s, 1e-9) * 3600),
                "seeds_per_hour": int(agg["n"] / max(wall_s, 1e-9) * 3600),
                "fault_kinds_fired": dict(sorted(agg["faults"].items())),
                "probes": dict(sorted(agg["probes"].items())),
                "simulated": dict(sorted(agg["sim"].items())),
                "components": mod.COMPONENTS,
                "workers": workers,
                "runs_requested": n,
                "truncated_by_wall_budget": truncated,
                "runs_with_violation": agg["nviol"],
                "known_findings_seen": sorted({l for l in known_lines}),
                "violation_signatures": [s for s, _, _ in reported],
                "harness_errors": len(harness_err),
            },
            "assumptions": mod.ASSUMPTIONS,
            "wall_s": round(wall_s, 2),
            "violations": len(reported),
        }
        with open(os.path.join(EVIDENCE, prop + ".json"), "w") as f:
            f.write(dumps(ev, indent=1))
    print("DONE property=%s tier=%s runs=%d distinct_traces=%d violations=%d known=%d harness_errors=%d wall=%.1fs exit=%d"
          % (prop, tier, agg["n"], len(agg["traces"]), len(reported), len(known_lines), len(harness_err), wall_s, exit_code), flush=True)
    return exit_code, agg
