"""Canonical snapshots of pybrops objects ("observably equal", DESIGN B.3).

snap(obj) -> nested JSON-able structure built from every public, non-callable
attribute reachable through ``property`` objects of the class (plus public
``__dict__`` entries of plain objects).  ndarrays become
(kind-class, shape, content-digest); object arrays compare by str content.
"""
import hashlib
import inspect

import numpy

try:
    import pandas
except Exception:       # pragma: no cover
    pandas = None

_KINDCLASS = {"i": "int", "u": "int", "f": "float", "b": "bool", "O": "str", "U": "str", "S": "str", "c": "complex"}

_PROP_CACHE = {}


def _props(cls):
    r = _PROP_CACHE.get(cls)
    if r is None:
        names = []
        for name, member in inspect.getmembers(cls, lambda m: isinstance(m, property)):
            if not name.startswith("_"):
                names.append(name)
        r = _PROP_CACHE[cls] = sorted(names)
    return r


def arr_snap(a, exact_dtype=False):
    a = numpy.asarray(a)
    kind = _KINDCLASS.get(a.dtype.kind, a.dtype.kind)
    if kind == "str":
        content = [None if v is None else (v.decode("utf-8", "replace") if isinstance(v, bytes) else str(v))
                   for v in a.ravel().tolist()]
        payload = repr(content).encode("utf-8", "surrogatepass")
        tag = "str"
    else:
        payload = numpy.ascontiguousarray(a).tobytes()
        # value-and-kind equality: int8 vs int64 label arrays compare by value
        tag = a.dtype.str if exact_dtype or kind in ("float", "complex") else kind
        if not exact_dtype and kind == "int":
            payload = numpy.ascontiguousarray(a.astype(numpy.int64)).tobytes()
    return ["nd", tag, list(a.shape), hashlib.sha256(payload).hexdigest()[:20]]


def snap(o, depth=0, exact=("mat",), skip=()):
    if depth > 6:
        return "<deep>"
    if o is None or isinstance(o, (bool, str)):
        return o
    if isinstance(o, (int, numpy.integer)) and not isinstance(o, (bool, numpy.bool_)):
        return ["int", int(o)]
    if isinstance(o, (numpy.bool_,)):
        return bool(o)
    if isinstance(o, (float, numpy.floating)):
        return ["float", float(o).hex()]
    if isinstance(o, numpy.ndarray):
        return arr_snap(o)
    if isinstance(o, (list, tuple)):
        return [snap(v, depth + 1, exact, skip) for v in o]
    if isinstance(o, dict):
        return {"dict": [[str(k), snap(o[k], depth + 1, exact, skip)] for k in sorted(o, key=str)]}
    if pandas is not None and isinstance(o, pandas.DataFrame):
        return {"df": [[str(c), arr_snap(o[c].to_numpy())] for c in o.columns], "n": len(o)}
    if isinstance(o, (numpy.random.Generator, numpy.random.RandomState)):
        return "<rng>"
    if inspect.ismodule(o):
        return "<module %s>" % o.__name__
    if callable(o) and not type(o).__module__.startswith("pybrops"):
        return "<callable %s>" % getattr(o, "__qualname__", type(o).__name__)
    cls = type(o)
    if cls.__module__.startswith("pybrops") or hasattr(o, "__dict__"):
        d = {}
        for name in _props(cls):
            if name in skip:
                continue
            try:
                v = getattr(o, name)
            except Exception as e:
                d[name] = "<raises %s>" % type(e).__name__
                continue
            if isinstance(v, numpy.ndarray) and name in exact:
                d[name] = arr_snap(v, exact_dtype=True)
            else:
                d[name] = snap(v, depth + 1, exact, skip)
        if not cls.__module__.startswith("pybrops"):
            for name, v in sorted(vars(o).items()):
                if not name.startswith("_") and name not in d:
                    d[name] = snap(v, depth + 1, exact, skip)
        return {"cls": cls.__name__, "attrs": d}
    return "<%s>" % cls.__name__


def sdig(o, **k):
    import json
    return hashlib.sha256(json.dumps(snap(o, **k), sort_keys=True).encode()).hexdigest()[:20]


def diff(a, b, path=""):
    """First differing paths between two snapshots (for messages)."""
    out = []
    if type(a) is not type(b):
        return [(path, a, b)]
    if isinstance(a, dict):
        if "attrs" in a and "attrs" in b:
            if a.get("cls") != b.get("cls"):
                out.append((path + ".cls", a.get("cls"), b.get("cls")))
            for k in sorted(set(a["attrs"]) | set(b["attrs"])):
                if k not in a["attrs"] or k not in b["attrs"]:
                    out.append((path + "." + k, a["attrs"].get(k, "<absent>"), b["attrs"].get(k, "<absent>")))
                else:
                    out += diff(a["attrs"][k], b["attrs"][k], path + "." + k)
            return out
        if a != b:
            ka = a.get("dict") or a.get("df")
            kb = b.get("dict") or b.get("df")
            if isinstance(ka, list) and isinstance(kb, list) and [x[0] for x in ka] == [x[0] for x in kb]:
                for (k, va), (_, vb) in zip(ka, kb):
                    out += diff(va, vb, path + "[" + k + "]")
                if not out:
                    out.append((path, a, b))
                return out
            return [(path, a, b)]
        return []
    if isinstance(a, list) and a and a[0] == "nd":
        return [] if a == b else [(path, a, b)]
    if isinstance(a, list):
        if len(a) != len(b):
            return [(path + ".len", len(a), len(b))]
        for i, (x, y) in enumerate(zip(a, b)):
            out += diff(x, y, "%s[%d]" % (path, i))
        return out
    return [] if a == b else [(path, a, b)]
