"""Catalogue of stochastic pybrops components (used by C08, partly by C06).

Each entry maps a name to ``fn(ctx, rng, par) -> list of arrays/scalars``.  ``rng``
is None for "use the library's global generator" or a generator object for
components that accept one.  ``ctx`` is a small world rebuilt from a seed for
every execution, so no object state is carried between executions.
"""
import random

import numpy

from . import compat  # noqa: F401
from . import world

from pybrops.core.random import prng, sampling
from pybrops.breed.prot.mate.SelfCross import SelfCross
from pybrops.breed.prot.mate.TwoWayCross import TwoWayCross
from pybrops.breed.prot.mate.TwoWayDHCross import TwoWayDHCross
from pybrops.breed.prot.mate.ThreeWayCross import ThreeWayCross
from pybrops.breed.prot.mate.ThreeWayDHCross import ThreeWayDHCross
from pybrops.breed.prot.mate.FourWayCross import FourWayCross
from pybrops.breed.prot.mate.FourWayDHCross import FourWayDHCross
from pybrops.breed.prot.mate import util as putil
from pybrops.core.util import mate as cutil
from pybrops.breed.prot.pt.G_E_Phenotyping import G_E_Phenotyping
from pybrops.breed.prot.sel.cfg.SubsetSelectionConfiguration import SubsetSelectionConfiguration
from pybrops.breed.prot.sel.cfg.RealSelectionConfiguration import RealSelectionConfiguration
from pybrops.breed.prot.sel.cfg.IntegerSelectionConfiguration import IntegerSelectionConfiguration
from pybrops.breed.prot.sel.cfg.BinarySelectionConfiguration import BinarySelectionConfiguration
from pybrops.breed.prot.sel.cfg.SubsetMateSelectionConfiguration import SubsetMateSelectionConfiguration
from pybrops.breed.prot.sel.cfg.RealMateSelectionConfiguration import RealMateSelectionConfiguration
from pybrops.breed.prot.sel.cfg.IntegerMateSelectionConfiguration import IntegerMateSelectionConfiguration
from pybrops.breed.prot.sel.cfg.BinaryMateSelectionConfiguration import BinaryMateSelectionConfiguration
from pybrops.opt.algo.SubsetGeneticAlgorithm import SubsetGeneticAlgorithm
from pybrops.opt.algo.RealGeneticAlgorithm import RealGeneticAlgorithm
from pybrops.opt.algo.IntegerGeneticAlgorithm import IntegerGeneticAlgorithm
from pybrops.opt.algo.BinaryGeneticAlgorithm import BinaryGeneticAlgorithm
from pybrops.opt.algo.NSGA2SubsetGeneticAlgorithm import NSGA2SubsetGeneticAlgorithm
from pybrops.opt.algo.NSGA2RealGeneticAlgorithm import NSGA2RealGeneticAlgorithm
from pybrops.opt.algo.NSGA2IntegerGeneticAlgorithm import NSGA2IntegerGeneticAlgorithm
from pybrops.opt.algo.NSGA2BinaryGeneticAlgorithm import NSGA2BinaryGeneticAlgorithm
from pybrops.opt.algo.NSGA3SubsetGeneticAlgorithm import NSGA3SubsetGeneticAlgorithm
from pybrops.opt.algo import NSGA2MemeticSubsetGeneticAlgorithm as MEM
from pybrops.opt.algo.SteepestDescentSubsetHillClimber import SteepestDescentSubsetHillClimber
from pybrops.opt.algo.SortingSubsetOptimizationAlgorithm import SortingSubsetOptimizationAlgorithm
from pybrops.model.embvmat.DenseExpectedMaximumBreedingValueMatrix import DenseExpectedMaximumBreedingValueMatrix
from pybrops.popgen.cmat.DenseMolecularCoancestryMatrix import DenseMolecularCoancestryMatrix
from pybrops.breed.prot.sel.prob import RandomSelectionProblem as RSP
from pybrops.breed.prot.sel import EstimatedBreedingValueSelection as EBVS
from pybrops.breed.prot.sel import RandomSelection as RNDS


class Ctx:
    def __init__(self, w):
        R = random.Random(w["seed"])
        self.nt, self.nv = w["ntaxa"], w["nvrnt"]
        self.pg = world.pgmat(R, self.nt, self.nv, min(w.get("nchr", 2), self.nv))
        self.gm = world.algmod(R, self.nv, 2)
        self.bv = self.gm.gebv(self.pg)
        self.ebv = numpy.array([[R.gauss(0, 1) for _ in range(2)] for _ in range(self.nt)])
        self.R = R


MATE = {"self": (SelfCross, 1), "2w": (TwoWayCross, 2), "2wdh": (TwoWayDHCross, 2), "3w": (ThreeWayCross, 3),
        "3wdh": (ThreeWayDHCross, 3), "4w": (FourWayCross, 4), "4wdh": (FourWayDHCross, 4)}

CAT = {}


def reg(name, has_rng=True, glob=True, heavy=False):
    def deco(f):
        CAT[name] = {"fn": f, "has_rng": has_rng, "global": glob, "heavy": heavy}
        return f
    return deco


# ---- prng wrappers (global only) ----------------------------------------------------
def _prng(dist, args):
    def f(ctx, rng, par):
        return [numpy.asarray(getattr(prng, dist)(*args))]
    return f


for _d, _a in [("random", (5,)), ("uniform", (0.0, 2.0, 4)), ("normal", (0.0, 1.0, 4)), ("choice", (7, 3)),
               ("permutation", (6,)), ("binomial", (5, 0.3, 4)), ("standard_normal", (3,)), ("poisson", (2.0, 4)),
               ("exponential", (1.0, 3)), ("beta", (1.0, 2.0, 3)), ("gamma", (2.0, 1.0, 3)), ("bytes", (8,))]:
    reg("prng." + _d, has_rng=False)(_prng(_d, _a))


@reg("prng.shuffle", has_rng=False)
def _shuffle(ctx, rng, par):
    a = numpy.arange(9)
    prng.shuffle(a)
    return [a]


@reg("prng.multivariate_normal", has_rng=False)
def _mvn(ctx, rng, par):
    return [prng.multivariate_normal(numpy.zeros(2), numpy.eye(2), 3)]


@reg("prng.spawn", has_rng=False)
def _spawn(ctx, rng, par):
    n = par.get("n", 2)
    st = prng.spawn(n) if n is not None else [prng.spawn()]
    return [s.random(3) for s in st] + [s.integers(0, 1000, 2) for s in st]


@reg("py.random", has_rng=False)
def _pyrandom(ctx, rng, par):
    import random as pr
    return [numpy.array([pr.random(), pr.randint(0, 10 ** 9)])]


# ---- mating ------------------------------------------------------------------------
def _mate(pname):
    cls, npar = MATE[pname]

    def f(ctx, rng, par):
        R = random.Random(par.get("s", 0))
        nx = par.get("ncross", 2)
        xc = numpy.array([[R.randrange(ctx.nt) for _ in range(npar)] for _ in range(nx)])
        mp = cls(progeny_counter=0, family_counter=0, rng=rng)
        p = mp.mate(ctx.pg, xc, par.get("nmating", 1), par.get("nprogeny", 2), nself=par.get("nself", 0))
        return [p.mat, p.taxa, p.taxa_grp]
    return f


for _p in MATE:
    reg("mate." + _p)(_mate(_p))


def _meiosis(fn):
    def f(ctx, rng, par):
        if rng is None:
            rng = prng.global_prng
        return [fn(ctx.pg.mat, numpy.arange(ctx.nt), ctx.pg.vrnt_xoprob, rng)]
    return f


reg("mat_meiosis")(_meiosis(putil.mat_meiosis))
reg("dense_dh")(_meiosis(cutil.dense_dh))


# ---- phenotyping -------------------------------------------------------------------
@reg("phenotype")
def _pheno(ctx, rng, par):
    pt = G_E_Phenotyping(ctx.gm, nenv=par.get("nenv", 2), nrep=par.get("nrep", 2), var_env=0.5, var_rep=0.2, var_err=1.0, rng=rng)
    df = pt.phenotype(ctx.pg)
    return [df[c].to_numpy() for c in df.columns]


# ---- sampling utilities --------------------------------------------------------------
@reg("sampling.sus")
def _sus(ctx, rng, par):
    p = numpy.abs(ctx.ebv[:, 0]) + 0.01
    return [sampling.stochastic_universal_sampling(numpy.arange(ctx.nt), p, par.get("k", 5), rng)]


@reg("sampling.tiled_choice")
def _tiled(ctx, rng, par):
    return [sampling.tiled_choice(numpy.arange(ctx.nt), par.get("k", 7), bool(par.get("replace", False)), None, rng)]


@reg("sampling.axis_shuffle")
def _axis(ctx, rng, par):
    a = numpy.arange(24.0).reshape(2, 3, 4)
    sampling.axis_shuffle(a, par.get("axis", 0), rng)
    return [a]


@reg("sampling.outcross_shuffle")
def _outx(ctx, rng, par):
    x = numpy.array([[0, 0], [1, 1], [2, 3], [3, 2], [0, 1]])
    sampling.outcross_shuffle(x, rng)
    return [x]


# ---- selection configurations --------------------------------------------------------
def _cfg(kind, mate=False):
    def f(ctx, rng, par):
        nt = ctx.nt
        ncross, npar = par.get("ncross", 3), 2
        R = random.Random(par.get("s", 0))
        if mate:
            ncand = max(2, min(6, nt * nt))
            xmap = numpy.array([[R.randrange(nt) for _ in range(npar)] for _ in range(ncand)])
            n = ncand
        else:
            n = nt
        if kind == "subset":
            k = max(1, min(n, par.get("k", 3)))
            decn = numpy.array(R.sample(range(n), k))
        elif kind == "real":
            decn = numpy.array([R.random() for _ in range(n)])
        elif kind == "integer":
            decn = numpy.array([R.randint(0, 3) for _ in range(n)])
            if decn.sum() == 0:
                decn[0] = 1
        else:
            decn = numpy.array([R.randint(0, 1) for _ in range(n)])
            if decn.sum() == 0:
                decn[0] = 1
        cls = {("subset", False): SubsetSelectionConfiguration, ("real", False): RealSelectionConfiguration,
               ("integer", False): IntegerSelectionConfiguration, ("binary", False): BinarySelectionConfiguration,
               ("subset", True): SubsetMateSelectionConfiguration, ("real", True): RealMateSelectionConfiguration,
               ("integer", True): IntegerMateSelectionConfiguration, ("binary", True): BinaryMateSelectionConfiguration}[(kind, mate)]
        if mate:
            cfg = cls(ncross=ncross, nparent=npar, nmating=1, nprogeny=2, pgmat=ctx.pg, xconfig_decn=decn, xconfig_xmap=xmap, rng=rng)
        else:
            cfg = cls(ncross=ncross, nparent=npar, nmating=1, nprogeny=2, pgmat=ctx.pg, xconfig_decn=decn, rng=rng)
        return [cfg.sample_xconfig(return_xconfig=True)]
    return f


for _k in ("subset", "real", "integer", "binary"):
    reg("xconfig." + _k)(_cfg(_k))
    reg("xconfig.mate." + _k)(_cfg(_k, True))


# ---- optimisers ----------------------------------------------------------------------
def _soln(s):
    return [numpy.asarray(s.soln_decn), numpy.asarray(s.soln_obj)]


def _algo(cls, kind, nobj, **extra):
    def f(ctx, rng, par):
        prob = world.ebv_problem(kind, ctx.ebv, nobj=nobj)
        kw = dict(ngen=par.get("ngen", 2), pop_size=par.get("pop", 6))
        kw.update(extra)
        a = cls(rng=rng, **kw) if rng is not None else cls(**kw)
        return _soln(a.minimize(prob))
    return f


reg("ga.subset", heavy=True)(_algo(SubsetGeneticAlgorithm, "subset", 1))
reg("ga.real", heavy=True)(_algo(RealGeneticAlgorithm, "real", 1))
reg("ga.integer", heavy=True)(_algo(IntegerGeneticAlgorithm, "integer", 1))
reg("ga.binary", heavy=True)(_algo(BinaryGeneticAlgorithm, "binary", 1))
reg("nsga2.subset", heavy=True)(_algo(NSGA2SubsetGeneticAlgorithm, "subset", 2))
reg("nsga2.real", heavy=True)(_algo(NSGA2RealGeneticAlgorithm, "real", 2))
reg("nsga2.integer", heavy=True)(_algo(NSGA2IntegerGeneticAlgorithm, "integer", 2))
reg("nsga2.binary", heavy=True)(_algo(NSGA2BinaryGeneticAlgorithm, "binary", 2))
reg("nsga3.subset", heavy=True)(_algo(NSGA3SubsetGeneticAlgorithm, "subset", 2))
reg("memetic.steepest", heavy=True)(_algo(MEM.NSGA2SteepestDescentSubsetGeneticAlgorithm, "subset", 2))
reg("memetic.stochastic", heavy=True)(_algo(MEM.NSGA2StochasticDescentSubsetGeneticAlgorithm, "subset", 2))
reg("memetic.mutatorA", heavy=True)(_algo(MEM.NSGA2MutatorASubsetGeneticAlgorithm, "subset", 2))
reg("memetic.mutatorB", heavy=True)(_algo(MEM.NSGA2MutatorBSubsetGeneticAlgorithm, "subset", 2))


@reg("hillclimber")
def _hc(ctx, rng, par):
    prob = world.ebv_problem("subset", ctx.ebv, nobj=1)
    return _soln(SteepestDescentSubsetHillClimber(rng=rng).minimize(prob))


# ---- legacy "unconstrained" optimisers (objective-function API) -----------------------------
def _legacy(which):
    def f(ctx, rng, par):
        import importlib
        cls = getattr(importlib.import_module("pybrops.opt.algo." + which), which)
        ebv = numpy.asarray(ctx.ebv, dtype=float)

        def objfn(sel, **kw):
            v = float(ebv[numpy.asarray(sel, dtype=int)].sum())
            return v if which.endswith("HillClimber") else (v,)
        kw = {} if which.endswith("HillClimber") else dict(ngen=2, mu=8, lamb=8)
        if rng is not None:
            kw["rng"] = rng
        algo = cls(**kw)
        res = algo.optimize(objfn, 3, numpy.arange(len(ebv)), numpy.array([float(par.get("wt", 1.0))]))
        return [numpy.asarray(res[0], dtype=float).ravel(), numpy.asarray(res[1])]
    return f


reg("legacy.hillclimber")(_legacy("UnconstrainedSteepestAscentSetHillClimber"))
reg("legacy.setga", heavy=True)(_legacy("UnconstrainedSetGeneticAlgorithm"))
reg("legacy.nsga2", heavy=True)(_legacy("UnconstrainedNSGA2SetGeneticAlgorithm"))


# ---- global-only components -------------------------------------------------------------
@reg("embv", has_rng=False, heavy=True)
def _embv(ctx, rng, par):
    nrep, nprog = 2, 3
    if par.get("per_taxon"):
        # per-taxon replicate and progeny numbers (array form), unequal across taxa
        nrep = numpy.array([1 + (i * 3 + par.get("s", 0)) % 4 for i in range(ctx.nt)], dtype=int)
        nprog = numpy.array([1 + (i + par.get("s", 0)) % 3 for i in range(ctx.nt)], dtype=int)
    m = DenseExpectedMaximumBreedingValueMatrix.from_gmod(ctx.gm, ctx.pg, nprogeny=nprog, nrep=nrep)
    return [m.mat]


@reg("randsel.problem", has_rng=False)
def _randsel(ctx, rng, par):
    p = RSP.RandomSubsetSelectionProblem.from_object(
        ctx.nt, 2, ndecn=2, decn_space=numpy.arange(ctx.nt), decn_space_lower=numpy.repeat(0, 2),
        decn_space_upper=numpy.repeat(ctx.nt - 1, 2), nobj=2)
    return [p.rbv]


@reg("jitter", has_rng=False)
def _jitter(ctx, rng, par):
    c = DenseMolecularCoancestryMatrix.from_gmat(ctx.pg)
    c.mat = numpy.zeros_like(c.mat)      # singular: jitter is certainly applied
    c.apply_jitter(nattempt=3)
    return [c.mat]


# ---- selection protocols (accept rng; sample a cross configuration) --------------------------
@reg("select.ebv.subset")
def _selebv(ctx, rng, par):
    p = EBVS.EstimatedBreedingValueSubsetSelection(
        ntrait=2, unscale=True, ncross=2, nparent=2, nmating=1, nprogeny=2, nobj=1, obj_wt=numpy.array([1.0]),
        obj_trans=world._sumtr, rng=rng, soalgo=SortingSubsetOptimizationAlgorithm())
    cfg = p.select(pgmat=ctx.pg, gmat=ctx.pg, ptdf=None, bvmat=ctx.bv, gpmod=ctx.gm, t_cur=0, t_max=5)
    return [cfg.xconfig_decn, cfg.sample_xconfig(return_xconfig=True)]


@reg("select.random.subset", heavy=True)
def _selrnd(ctx, rng, par):
    p = RNDS.RandomSubsetSelection(
        ntrait=2, ncross=2, nparent=2, nmating=1, nprogeny=2, nobj=1, obj_wt=numpy.array([1.0]),
        obj_trans=world._sumtr, rng=rng, soalgo=SortingSubsetOptimizationAlgorithm())
    cfg = p.select(pgmat=ctx.pg, gmat=ctx.pg, ptdf=None, bvmat=ctx.bv, gpmod=ctx.gm, t_cur=0, t_max=5)
    return [cfg.xconfig_decn, cfg.sample_xconfig(return_xconfig=True)]


# ---- objects that outlive a re-seeding -----------------------------------------------------------
# Built BEFORE prng.seed(s) (during the prior history) and used after it: their stochastic behaviour must follow
# the re-seeded global generator exactly as a freshly built object's would.
import copy as _copy

PERSIST = {}


def preg(name):
    def deco(f):
        PERSIST[name] = f
        return f
    return deco


@preg("pt")
def _p_pt(ctx):
    pt = G_E_Phenotyping(ctx.gm, nenv=2, nrep=1, var_env=0.5, var_rep=0.2, var_err=1.0)
    return pt, lambda c, o: [o.phenotype(c.pg)[col].to_numpy() for col in ("taxa", "env", "rep", str(c.gm.trait[0]))]


@preg("pt.deepcopy")
def _p_ptd(ctx):
    o, use = _p_pt(ctx)
    return _copy.deepcopy(o), use


@preg("pt.copy")
def _p_ptc(ctx):
    o, use = _p_pt(ctx)
    return _copy.copy(o), use


def _use_mate(c, o):
    xc = numpy.array([[0, 1], [1, 2 % c.nt]])
    p = o.mate(c.pg, xc, 1, 2)
    return [p.mat]


@preg("mate")
def _p_mate(ctx):
    return TwoWayCross(progeny_counter=0, family_counter=0), _use_mate


@preg("mate.deepcopy")
def _p_mated(ctx):
    return _copy.deepcopy(TwoWayCross(progeny_counter=0, family_counter=0)), _use_mate


def _use_cfg(c, o):
    return [o.sample_xconfig(return_xconfig=True)]


@preg("xconfig")
def _p_cfg(ctx):
    decn = numpy.arange(min(3, ctx.nt))
    return SubsetSelectionConfiguration(ncross=3, nparent=2, nmating=1, nprogeny=1, pgmat=ctx.pg, xconfig_decn=decn), _use_cfg


@preg("xconfig.full")
def _p_cfg_full(ctx):
    # as many chosen parents as there are slots: one complete set per sampling
    decn = numpy.arange(4)[::-1].copy()
    return SubsetSelectionConfiguration(ncross=2, nparent=2, nmating=1, nprogeny=1, pgmat=ctx.pg, xconfig_decn=decn), _use_cfg


@preg("xconfig.deepcopy")
def _p_cfgd(ctx):
    o, use = _p_cfg(ctx)
    return _copy.deepcopy(o), use


@preg("hillclimber")
def _p_hc(ctx):
    return SteepestDescentSubsetHillClimber(), lambda c, o: _soln(o.minimize(world.ebv_problem("subset", c.ebv, nobj=1)))


@preg("ga.real")
def _p_ga(ctx):
    return RealGeneticAlgorithm(ngen=2, pop_size=6), lambda c, o: _soln(o.minimize(world.ebv_problem("real", c.ebv, nobj=1)))


@preg("problem.hc")
def _p_prob_hc(ctx):
    # a problem object that outlives one optimisation: solved again later with a fresh hill-climber
    return world.ebv_problem("subset", ctx.ebv, nobj=1), lambda c, o: _soln(SteepestDescentSubsetHillClimber().minimize(o))


@preg("problem.ga")
def _p_prob_ga(ctx):
    return world.ebv_problem("integer", ctx.ebv, nobj=1), lambda c, o: _soln(IntegerGeneticAlgorithm(ngen=2, pop_size=6).minimize(o))


# persistent objects whose documented state does not evolve with use (no progeny counters): these may also have been
# used in the history that precedes the re-seeding
PREUSE_OK = ("pt", "pt.deepcopy", "pt.copy", "xconfig", "xconfig.full", "hillclimber", "ga.real", "select.ebv", "problem.hc", "problem.ga")


@preg("select.ebv")
def _p_sel(ctx):
    p = EBVS.EstimatedBreedingValueSubsetSelection(
        ntrait=2, unscale=True, ncross=2, nparent=2, nmating=1, nprogeny=2, nobj=1, obj_wt=numpy.array([1.0]),
        obj_trans=world._sumtr, soalgo=SortingSubsetOptimizationAlgorithm())

    def use(c, o):
        cfg = o.select(pgmat=c.pg, gmat=c.pg, ptdf=None, bvmat=c.bv, gpmod=c.gm, t_cur=0, t_max=5)
        return [cfg.xconfig_decn, cfg.sample_xconfig(return_xconfig=True)]
    return p, use


# ---- selection protocols of every family / encoding (rng handed to the protocol AND to its optimiser) ------------
def _selproto(fam, enc):
    def f(ctx, rng, par):
        from .checks import c07_select as c7
        sc = {"fam": fam, "enc": enc, "ncross": 2, "nparent": 2, "nmating": 1, "nprogeny": 2, "mo": False, "exact": True,
              "ngen": par.get("ngen", 2), "pop": par.get("pop", 6), "unique_parents": True}
        cls, kw, mo = c7._protocol(sc, rng, 2)
        if enc != "subset":
            kw["soalgo"] = c7.SO[enc](ngen=sc["ngen"], pop_size=sc["pop"], **({"rng": rng} if rng is not None else {}))
        prot = cls(**kw)
        cfg = prot.select(pgmat=ctx.pg, gmat=ctx.pg, ptdf=None, bvmat=ctx.bv, gpmod=ctx.gm, t_cur=0, t_max=5)
        return [numpy.asarray(cfg.xconfig_decn), cfg.sample_xconfig(return_xconfig=True)]
    return f


for _fam, _encs in (("ebv", ("real", "integer", "binary")), ("gebv", ("subset", "real", "integer", "binary")), ("random", ("real", "integer", "binary")),
                    ("ocs", ("subset", "real")), ("ohv", ("subset", "real")), ("uc", ("subset",)),
                    ("wgs", ("subset", "real")), ("gwgebv", ("integer",)), ("febv", ("subset",)), ("meh", ("subset", "binary")),
                    ("mgr", ("subset", "real")), ("pafd", ("subset",)), ("pau", ("subset",)), ("opv", ("subset",)),
                    ("embv", ("subset", "real")), ("mogs", ("subset",)), ("gb", ("subset",))):
    for _enc in _encs:
        reg("select.%s.%s" % (_fam, _enc), heavy=True)(_selproto(_fam, _enc))
