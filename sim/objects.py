"""Seeded builders for every persistable pybrops class (used by C16).

build(key, R, var) -> object.  ``var`` is a dict of variant switches:
  taxa, taxa_grp, trait, vrnt (bool: optional label arrays present), grouped (bool),
  nonascii (bool), nt, nv, ntr (sizes).
"""
import numpy

from . import compat  # noqa: F401
from .world import obj

from pybrops.core.mat.DenseMatrix import DenseMatrix
from pybrops.core.mat.DenseTaxaMatrix import DenseTaxaMatrix
from pybrops.core.mat.DenseVariantMatrix import DenseVariantMatrix
from pybrops.core.mat.DenseTraitMatrix import DenseTraitMatrix
from pybrops.core.mat.DenseTaxaVariantMatrix import DenseTaxaVariantMatrix
from pybrops.core.mat.DensePhasedTaxaVariantMatrix import DensePhasedTaxaVariantMatrix
from pybrops.core.mat.DenseTaxaTraitMatrix import DenseTaxaTraitMatrix
from pybrops.core.mat.DenseSquareTaxaMatrix import DenseSquareTaxaMatrix
from pybrops.core.mat.DenseSquareTaxaTraitMatrix import DenseSquareTaxaTraitMatrix
from pybrops.popgen.gmat.DenseGenotypeMatrix import DenseGenotypeMatrix
from pybrops.popgen.gmat.DensePhasedGenotypeMatrix import DensePhasedGenotypeMatrix
from pybrops.popgen.bvmat.DenseBreedingValueMatrix import DenseBreedingValueMatrix
from pybrops.popgen.bvmat.DenseEstimatedBreedingValueMatrix import DenseEstimatedBreedingValueMatrix
from pybrops.popgen.bvmat.DenseGenomicEstimatedBreedingValueMatrix import DenseGenomicEstimatedBreedingValueMatrix
from pybrops.popgen.cmat.DenseMolecularCoancestryMatrix import DenseMolecularCoancestryMatrix
from pybrops.popgen.cmat.DenseVanRadenCoancestryMatrix import DenseVanRadenCoancestryMatrix
from pybrops.popgen.cmat.DenseYangCoancestryMatrix import DenseYangCoancestryMatrix
from pybrops.popgen.gmap.StandardGeneticMap import StandardGeneticMap
from pybrops.popgen.gmap.ExtendedGeneticMap import ExtendedGeneticMap
from pybrops.model.gmod.DenseAdditiveLinearGenomicModel import DenseAdditiveLinearGenomicModel
from pybrops.model.gmod.DenseAdditiveDominanceLinearGenomicModel import DenseAdditiveDominanceLinearGenomicModel
from pybrops.breed.prot.pt.G_E_Phenotyping import G_E_Phenotyping
from pybrops.model.vmat.DenseTwoWayDHAdditiveGeneticVarianceMatrix import DenseTwoWayDHAdditiveGeneticVarianceMatrix
from pybrops.model.vmat.DenseTwoWayDHAdditiveGenicVarianceMatrix import DenseTwoWayDHAdditiveGenicVarianceMatrix
from pybrops.model.vmat.DenseThreeWayDHAdditiveGeneticVarianceMatrix import DenseThreeWayDHAdditiveGeneticVarianceMatrix
from pybrops.model.vmat.DenseThreeWayDHAdditiveGenicVarianceMatrix import DenseThreeWayDHAdditiveGenicVarianceMatrix
from pybrops.model.vmat.DenseFourWayDHAdditiveGeneticVarianceMatrix import DenseFourWayDHAdditiveGeneticVarianceMatrix
from pybrops.model.vmat.DenseFourWayDHAdditiveGenicVarianceMatrix import DenseFourWayDHAdditiveGenicVarianceMatrix
from pybrops.model.vmat.DenseDihybridDHAdditiveGeneticVarianceMatrix import DenseDihybridDHAdditiveGeneticVarianceMatrix
from pybrops.model.vmat.DenseDihybridDHAdditiveGenicVarianceMatrix import DenseDihybridDHAdditiveGenicVarianceMatrix
from pybrops.model.pcvmat.DenseTwoWayDHAdditiveProgenyGeneticCovarianceMatrix import DenseTwoWayDHAdditiveProgenyGeneticCovarianceMatrix
from pybrops.model.pcvmat.DenseThreeWayDHAdditiveProgenyGeneticCovarianceMatrix import DenseThreeWayDHAdditiveProgenyGeneticCovarianceMatrix
from pybrops.model.pcvmat.DenseFourWayDHAdditiveProgenyGeneticCovarianceMatrix import DenseFourWayDHAdditiveProgenyGeneticCovarianceMatrix
from pybrops.model.pcvmat.DenseDihybridDHAdditiveProgenyGeneticCovarianceMatrix import DenseDihybridDHAdditiveProgenyGeneticCovarianceMatrix

NONASCII = ["dé", "ß1", "日本", "Ωmega", "naïve", "ü", "çà", "ж"]


def _names(R, n, prefix, nonascii, dup=False):
    out = []
    for i in range(n):
        if nonascii and R.random() < 0.5:
            out.append(R.choice(NONASCII) + str(i))
        else:
            out.append("%s%d" % (prefix, R.randrange(100) * 100 + i))
    if dup and n > 1:
        out[-1] = out[0]
    R.shuffle(out)
    return obj(out)


def _f(R, shape, scale=1.0):
    n = int(numpy.prod(shape)) if len(shape) else 1
    vals = [R.choice([R.gauss(0, 1) * scale, round(R.gauss(0, 1), 2), 0.0, 1.0 / 3.0, 1e-8 * R.random(), 12345.678 * R.random()])
            for _ in range(n)]
    return numpy.array(vals, dtype=float).reshape(shape)


def _taxa_kw(R, v):
    kw = {}
    kw["taxa"] = _names(R, v["nt"], "t", v["nonascii"]) if v["taxa"] else None
    kw["taxa_grp"] = numpy.array(sorted(R.randint(1, 3) for _ in range(v["nt"])), dtype=int) if v["taxa_grp"] else None
    return kw


def _trait_kw(R, v):
    return {"trait": _names(R, v["ntr"], "tr", v["nonascii"]) if v["trait"] else None}


def _vrnt_kw(R, v, hap=True):
    nv = v["nv"]
    kw = {}
    nchr = R.randint(1, min(3, nv))
    chrgrp = numpy.sort(numpy.array([R.randint(1, nchr) for _ in range(nv)]))
    phypos = numpy.zeros(nv, dtype=int)
    for c in numpy.unique(chrgrp):
        ix = numpy.flatnonzero(chrgrp == c)
        phypos[ix] = numpy.cumsum([R.randint(1, 99) for _ in ix])
    if v["vrnt"]:
        kw.update(vrnt_chrgrp=chrgrp, vrnt_phypos=phypos)
        full = R.random() < 0.6
        kw["vrnt_name"] = _names(R, nv, "m", v["nonascii"]) if full or R.random() < 0.5 else None
        kw["vrnt_genpos"] = numpy.array([R.random() for _ in range(nv)]) if full or R.random() < 0.5 else None
        kw["vrnt_xoprob"] = numpy.array([R.choice([0.5, 0.0, 0.1, R.random() / 2]) for _ in range(nv)]) if full or R.random() < 0.5 else None
        if hap:
            kw["vrnt_hapgrp"] = numpy.array([R.randint(0, 3) for _ in range(nv)]) if full or R.random() < 0.3 else None
            kw["vrnt_hapalt"] = obj([R.choice("ACGT") for _ in range(nv)]) if full or R.random() < 0.3 else None
            kw["vrnt_hapref"] = obj([R.choice("ACGT") for _ in range(nv)]) if full or R.random() < 0.3 else None
            kw["vrnt_mask"] = numpy.array([R.random() < 0.7 for _ in range(nv)], dtype=bool) if full or R.random() < 0.3 else None
    return kw


def _group(o, v, taxa=True, vrnt=False):
    if not v["grouped"]:
        return o
    if taxa and getattr(o, "taxa_grp", None) is not None and getattr(o, "taxa", None) is not None:
        o.group_taxa()
    if vrnt and getattr(o, "vrnt_chrgrp", None) is not None and getattr(o, "vrnt_phypos", None) is not None:
        o.group_vrnt()
    return o


B = {}


def reg(key, fam):
    def deco(f):
        B[key] = {"fn": f, "family": fam}
        return f
    return deco


@reg("DenseMatrix", "core")
def _dm(R, v):
    return DenseMatrix(_f(R, (v["nt"], v["nv"])))


@reg("DenseTaxaMatrix", "core")
def _dtm(R, v):
    return _group(DenseTaxaMatrix(_f(R, (v["nt"], v["nv"])), **_taxa_kw(R, v)), v)


@reg("DenseVariantMatrix", "core")
def _dvm(R, v):
    return _group(DenseVariantMatrix(_f(R, (v["nv"], v["ntr"])), **_vrnt_kw(R, v)), v, taxa=False, vrnt=True)


@reg("DenseTraitMatrix", "core")
def _dtrm(R, v):
    return DenseTraitMatrix(_f(R, (v["ntr"], v["nv"])), **_trait_kw(R, v))


@reg("DenseTaxaVariantMatrix", "core")
def _dtvm(R, v):
    return _group(DenseTaxaVariantMatrix(_f(R, (v["nt"], v["nv"])), **_taxa_kw(R, v), **_vrnt_kw(R, v)), v, vrnt=True)


@reg("DensePhasedTaxaVariantMatrix", "core")
def _dptvm(R, v):
    return _group(DensePhasedTaxaVariantMatrix(_f(R, (2, v["nt"], v["nv"])), **_taxa_kw(R, v), **_vrnt_kw(R, v)), v, vrnt=True)


@reg("DenseTaxaTraitMatrix", "core")
def _dttm(R, v):
    return _group(DenseTaxaTraitMatrix(_f(R, (v["nt"], v["ntr"])), **_taxa_kw(R, v), **_trait_kw(R, v)), v)


@reg("DenseSquareTaxaMatrix", "core")
def _dstm(R, v):
    return _group(DenseSquareTaxaMatrix(_f(R, (v["nt"], v["nt"])), **_taxa_kw(R, v)), v)


@reg("DenseSquareTaxaTraitMatrix", "core")
def _dsttm(R, v):
    return _group(DenseSquareTaxaTraitMatrix(_f(R, (v["nt"], v["nt"], v["ntr"])), **_taxa_kw(R, v), **_trait_kw(R, v)), v)


@reg("DenseGenotypeMatrix", "gmat")
def _gm(R, v):
    pl = R.choice([2, 2, 4, 6])                      # unphased calls of diploids and polyploids
    mat = numpy.array([[R.randint(0, pl) for _ in range(v["nv"])] for _ in range(v["nt"])], dtype="int8")
    return _group(DenseGenotypeMatrix(mat, ploidy=pl, **_taxa_kw(R, v), **_vrnt_kw(R, v)), v, vrnt=True)


@reg("DensePhasedGenotypeMatrix", "gmat")
def _pgm(R, v):
    mat = numpy.array([[[R.randint(0, 1) for _ in range(v["nv"])] for _ in range(v["nt"])] for _ in range(2)], dtype="int8")
    return _group(DensePhasedGenotypeMatrix(mat, **_taxa_kw(R, v), **_vrnt_kw(R, v)), v, vrnt=True)


def _bv(cls):
    def f(R, v):
        raw = _f(R, (v["nt"], v["ntr"]), 3.0) + R.choice([0.0, 100.0])
        o = cls.from_numpy(raw, **_taxa_kw(R, v), **_trait_kw(R, v))
        return _group(o, v)
    return f


reg("DenseBreedingValueMatrix", "bvmat")(_bv(DenseBreedingValueMatrix))
reg("DenseEstimatedBreedingValueMatrix", "bvmat")(_bv(DenseEstimatedBreedingValueMatrix))
reg("DenseGenomicEstimatedBreedingValueMatrix", "bvmat")(_bv(DenseGenomicEstimatedBreedingValueMatrix))


def _cm(cls):
    def f(R, v):
        a = _f(R, (v["nt"], v["nt"]))
        return _group(cls((a + a.T) / 2.0 + numpy.eye(v["nt"]), **_taxa_kw(R, v)), v)
    return f


reg("DenseMolecularCoancestryMatrix", "cmat")(_cm(DenseMolecularCoancestryMatrix))
reg("DenseVanRadenCoancestryMatrix", "cmat")(_cm(DenseVanRadenCoancestryMatrix))
reg("DenseYangCoancestryMatrix", "cmat")(_cm(DenseYangCoancestryMatrix))


def _vm(cls, ntaxaax, ntraitax):
    def f(R, v):
        shape = (v["nt"],) * ntaxaax + (v["ntr"],) * ntraitax
        return _group(cls(numpy.abs(_f(R, shape)), **_taxa_kw(R, v), **_trait_kw(R, v)), v)
    return f


for _c, _n in [(DenseTwoWayDHAdditiveGeneticVarianceMatrix, 2), (DenseTwoWayDHAdditiveGenicVarianceMatrix, 2),
               (DenseThreeWayDHAdditiveGeneticVarianceMatrix, 3), (DenseThreeWayDHAdditiveGenicVarianceMatrix, 3),
               (DenseFourWayDHAdditiveGeneticVarianceMatrix, 4), (DenseFourWayDHAdditiveGenicVarianceMatrix, 4),
               (DenseDihybridDHAdditiveGeneticVarianceMatrix, 2), (DenseDihybridDHAdditiveGenicVarianceMatrix, 2)]:
    reg(_c.__name__, "vmat")(_vm(_c, _n, 1))
for _c, _n in [(DenseTwoWayDHAdditiveProgenyGeneticCovarianceMatrix, 2), (DenseThreeWayDHAdditiveProgenyGeneticCovarianceMatrix, 3),
               (DenseFourWayDHAdditiveProgenyGeneticCovarianceMatrix, 4), (DenseDihybridDHAdditiveProgenyGeneticCovarianceMatrix, 2)]:
    reg(_c.__name__, "pcvmat")(_vm(_c, _n, 2))


@reg("DenseAdditiveLinearGenomicModel", "gmod")
def _alg(R, v):
    return DenseAdditiveLinearGenomicModel(
        beta=_f(R, (1, v["ntr"])), u_misc=(_f(R, (2, v["ntr"])) if R.random() < 0.3 else None), u_a=_f(R, (v["nv"], v["ntr"])),
        trait=_trait_kw(R, v)["trait"], model_name=R.choice([None, "mod", "modèle"]),
        hyperparams=R.choice([None, {"a": 1.5}, {"lam": 0.25, "k": 3.0}]))


@reg("DenseAdditiveDominanceLinearGenomicModel", "gmod")
def _adg(R, v):
    return DenseAdditiveDominanceLinearGenomicModel(
        beta=_f(R, (1, v["ntr"])), u_misc=(_f(R, (2, v["ntr"])) if R.random() < 0.3 else None), u_a=_f(R, (v["nv"], v["ntr"])),
        u_d=_f(R, (v["nv"], v["ntr"])), trait=_trait_kw(R, v)["trait"], model_name=R.choice([None, "mod2"]),
        hyperparams=R.choice([None, {"a": 1.5}]))


@reg("G_E_Phenotyping", "ptprot")
def _ge(R, v):
    v2 = dict(v, trait=True)
    gp = _alg(R, v2)
    nenv = R.randint(1, 3)
    nrep = R.choice([R.randint(1, 3), numpy.array([R.randint(1, 3) for _ in range(nenv)])])
    sc = lambda: R.choice([0.0, 0.5, 1.0, numpy.array([R.random() for _ in range(v["ntr"])])])
    return G_E_Phenotyping(gp, nenv=nenv, nrep=nrep, var_env=sc(), var_rep=sc(), var_err=sc())


def _map_arrays(R, v):
    nv = max(2, v["nv"])
    nchr = R.randint(1, min(2, nv // 2))
    chrgrp = numpy.array([1 + (i * nchr) // nv for i in range(nv)])
    phypos = numpy.zeros(nv, dtype=int)
    genpos = numpy.zeros(nv)
    for c in numpy.unique(chrgrp):
        ix = numpy.flatnonzero(chrgrp == c)
        phypos[ix] = numpy.cumsum([R.randint(1, 99) for _ in ix])
        genpos[ix] = numpy.cumsum([R.random() * 0.3 for _ in ix])
    perm = list(range(nv))
    if R.random() < 0.5:
        R.shuffle(perm)
    perm = numpy.array(perm)
    return chrgrp[perm], phypos[perm], genpos[perm]


@reg("StandardGeneticMap", "gmap")
def _sgm(R, v):
    c, p, g = _map_arrays(R, v)
    return StandardGeneticMap(vrnt_chrgrp=c, vrnt_phypos=p, vrnt_genpos=g)


@reg("ExtendedGeneticMap", "gmap")
def _egm(R, v):
    c, p, g = _map_arrays(R, v)
    return ExtendedGeneticMap(vrnt_chrgrp=c, vrnt_phypos=p, vrnt_stop=p + 1, vrnt_genpos=g,
                              vrnt_name=(_names(R, len(c), "m", v["nonascii"]) if R.random() < 0.5 else None),
                              vrnt_fncode=(obj(["fn%d" % i for i in range(len(c))]) if R.random() < 0.3 else None))


def variant(R):
    return {"taxa": R.random() < 0.75, "taxa_grp": R.random() < 0.7, "trait": R.random() < 0.7, "vrnt": R.random() < 0.75,
            "grouped": R.random() < 0.5, "nonascii": R.random() < 0.3, "nt": R.randint(1, 4), "nv": R.randint(1, 6), "ntr": R.randint(1, 3)}


def build(key, seed, var):
    import random
    return B[key]["fn"](random.Random(seed), var)


HDF5_KEYS = [k for k, e in B.items() if e["family"] != "gmap"]
