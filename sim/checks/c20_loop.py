"""C20 — the breeding-programme loop applies operators in order on independent replicates.

System under simulation: the real ``RecurrentSelectionBreedingProgram`` driving six
in-process collaborators (initialisation, parent selection, mating, evaluation,
survivor selection operators and a logbook) that the simulator owns.  The
collaborators are the "other parties": per run each one is given a behaviour
(pure / mutate the containers it receives / mutate the objects inside them /
delete and add keys / return the very dicts it received / stash references and
mutate them during later replicates) and a crash schedule (raise ``SimCrash`` at the
k-th collaborator call of the run); after a crash ``evolve`` is called again on the
same programme object (restart).

Oracle: a reference automaton predicts the call sequence; every fake stamps the
state it returns with a fresh serial number and records a digest of it, so each
participant's input can be matched *by value* against what its predecessor
returned.  Invariants after every event: digests of the five ``start_*``
containers unchanged.
"""
import copy
import hashlib

import numpy

from .. import compat  # noqa: F401
from ..core import viol
from ..snapshot import sdig
from .. import world

from pybrops.breed.arch.RecurrentSelectionBreedingProgram import RecurrentSelectionBreedingProgram as RSBP
from pybrops.breed.op.init.InitializationOperator import InitializationOperator
from pybrops.breed.op.psel.ParentSelectionOperator import ParentSelectionOperator
from pybrops.breed.op.mate.MatingOperator import MatingOperator
from pybrops.breed.op.eval.EvaluationOperator import EvaluationOperator
from pybrops.breed.op.ssel.SurvivorSelectionOperator import SurvivorSelectionOperator
from pybrops.breed.op.log.Logbook import Logbook

PROP = "C20"
RUNS = {"quick": 30000, "thorough": 600000}
WALL = {"quick": 150, "thorough": 1500}
RULE = ("scenario = 1-3 evolve() calls (nrep 0-4, ngen 0-4, loginit) on one programme object, a behaviour per fake "
        "operator (pure/mutate_container/mutate_objects/delkeys/same/stash), pre-initialised or via initop, and a crash "
        "schedule over collaborator call indices; distinct = distinct (config, behaviours, crash-site kinds) abstract "
        "trace; non-trivial = at least one generation cycle or one crash executed")
COMPONENTS = {"real": ["pybrops.breed.arch.RecurrentSelectionBreedingProgram (evolve/advance/reset/initialize)",
                       "copy.deepcopy of DensePhasedGenotypeMatrix / DenseBreedingValueMatrix / DenseAdditiveLinearGenomicModel inside the state containers"],
              "stub": ["InitializationOperator", "ParentSelectionOperator", "MatingOperator", "EvaluationOperator",
                       "SurvivorSelectionOperator", "Logbook (all six are abstract in pybrops; fakes owned by the simulator)"]}
ASSUMPTIONS = ["operators are the simulator's fakes; real operator implementations are user code outside pybrops",
               "ngen=None (use t_max) is outside the workload: the property speaks of numbers of generations",
               "an operator that keeps a reference to the *stored initial state itself* and mutates it is not modelled: the programme cannot defend against it"]

MODES = ["pure", "mutate_container", "mutate_objects", "delkeys", "same", "stash"]
NAMES = ("genome", "geno", "pheno", "bval", "gmod")


class SimCrash(Exception):
    pass


def generate(R, tier):
    nsteps = R.choice([1, 1, 1, 2, 2, 3])
    steps = []
    for _ in range(nsteps):
        steps.append({"op": "evolve", "nrep": R.randint(0, 4), "ngen": R.randint(0, 4), "loginit": R.random() < 0.6, "positional": R.random() < 0.3})
    total = sum(s["nrep"] * (1 + (1 if s["loginit"] else 0) + 8 * s["ngen"]) for s in steps)
    crashes = []
    if total and R.random() < 0.55:
        for _ in range(R.choice([1, 1, 2])):
            crashes.append(R.randint(1, total))
    return {
        "steps": steps,
        "preinit": R.random() < 0.7,
        "modes": {k: R.choice(MODES) for k in ("psel", "mate", "eval", "ssel")},
        "crashes": sorted(set(crashes)),
        "world": {"seed": R.randrange(1 << 30), "ntaxa": R.randint(1, 4), "nvrnt": R.randint(1, 5), "grouped": R.random() < 0.6},
        "t_max": R.randint(0, 9),
        "rep0": R.choice([0, 0, 3]),
        # legal initial states in which some containers are still empty (nothing phenotyped / estimated yet)
        "empty": sorted(R.sample(range(5), R.choice([0, 0, 0, 1, 2, 5]))),
    }


def shrink(sc):
    for k in ("psel", "mate", "eval", "ssel"):
        if sc["modes"][k] != "pure":
            c = copy.deepcopy(sc)
            c["modes"][k] = "pure"
            yield c
    for i, s in enumerate(sc["steps"]):
        for key in ("nrep", "ngen"):
            if s[key] > 0:
                c = copy.deepcopy(sc)
                c["steps"][i][key] -= 1
                yield c
        if s["loginit"]:
            c = copy.deepcopy(sc)
            c["steps"][i]["loginit"] = False
            yield c
    if sc.get("empty"):
        c = copy.deepcopy(sc)
        c["empty"] = sc["empty"][:-1]
        yield c
    for i in range(len(sc["crashes"])):
        c = copy.deepcopy(sc)
        del c["crashes"][i]
        yield c
        if sc["crashes"][i] > 1:
            c = copy.deepcopy(sc)
            c["crashes"][i] -= 1
            yield c


def _mkstart(w):
    import random
    R = random.Random(w["seed"])
    pg = world.pgmat(R, w["ntaxa"], w["nvrnt"], 1)
    bv = world.bvmat(R, w["ntaxa"], 1)
    gm = world.algmod(R, w["nvrnt"], 1)
    # an unphased tetraploid genotype matrix (what unphased genotyping of a four-phase genome yields)
    from pybrops.popgen.gmat.DenseGenotypeMatrix import DenseGenotypeMatrix
    g4 = DenseGenotypeMatrix(numpy.array([[R.randint(0, 4) for _ in range(w["nvrnt"])] for _ in range(w["ntaxa"])], dtype="int8"),
                             taxa=pg.taxa, taxa_grp=pg.taxa_grp, vrnt_chrgrp=pg.vrnt_chrgrp, vrnt_phypos=pg.vrnt_phypos, ploidy=4)
    if w.get("grouped", True):
        # matrices whose taxa have been grouped carry group metadata (names, start/stop indices, lengths)
        for m_ in (pg, g4, bv):
            try:
                m_.group_taxa()
            except Exception:
                pass
    # a fitted ridge-regression model: its hyper-parameters are a dict holding arrays, lists and nested dicts
    from pybrops.model.gmod.rrBLUPModel0 import rrBLUPModel0
    rr = rrBLUPModel0(beta=numpy.array(gm.beta, copy=True), u_misc=None, u_a=numpy.array(gm.u_a, copy=True), trait=gm.trait, method="ML", model_name="rr",
                      hyperparams={"shrinkage": numpy.array([0.5, 2.0]), "train_log": [1.0, 2.0], "grid": {"lo": numpy.array([0.1]), "n": 3}})
    # predicted values as the model returns them: a subclass of the breeding-value matrix
    gebv = gm.gebv(pg)
    out = [{"pg": pg, "k": 0}, {"pg": copy.deepcopy(pg), "g4": g4, "k": 1}, {"tbl": numpy.arange(3.0), "k": 2},
           {"bv": bv, "gebv": gebv, "k": 3}, {"gm": gm, "rr": rr, "k": 4}]
    for i in w.get("empty", []):
        out[i] = {}
    return out


# every array- or scalar-valued attribute that makes up the observable state of the objects kept in the containers
ATTRS = ("mat", "taxa", "taxa_grp", "location", "scale", "u_a", "beta", "trait", "vrnt_xoprob", "vrnt_chrgrp", "vrnt_phypos", "vrnt_genpos",
         "vrnt_name", "vrnt_mask", "ploidy", "nphase", "taxa_grp_name", "taxa_grp_stix", "taxa_grp_spix", "taxa_grp_len",
         "vrnt_chrgrp_name", "vrnt_chrgrp_stix", "vrnt_chrgrp_spix", "vrnt_chrgrp_len")
# attributes an operator may update in place (numeric arrays)
MUTABLE = ("mat", "location", "scale", "u_a", "beta", "taxa_grp", "vrnt_xoprob", "vrnt_phypos")


def _poke(v, serial, sign):
    """Update one numeric array attribute of a library object in place (what an operator that re-centres, re-trains or
    re-labels the object it was handed does); which attribute depends on the call serial."""
    if serial % 3 == 0 and _poke_hyper(v, serial // 3, sign):
        return True
    cands = [a for a in MUTABLE if isinstance(getattr(v, a, None), numpy.ndarray) and getattr(v, a).size and getattr(v, a).dtype.kind in "fiu"]
    if not cands:
        return False
    arr = getattr(v, cands[serial % len(cands)])
    ix = 0 if sign > 0 else -1
    if arr.dtype.kind == "f":
        arr.flat[ix] += 1.0 * sign
    else:
        arr.flat[ix] ^= 1
    return True


def _deeprepr(x):
    if isinstance(x, dict):
        return "{" + ",".join("%r:%s" % (k, _deeprepr(x[k])) for k in sorted(x, key=str)) + "}"
    if isinstance(x, (list, tuple)):
        return "[" + ",".join(_deeprepr(v) for v in x) + "]"
    if isinstance(x, numpy.ndarray):
        return "nd%s%s" % (x.shape, x.tolist())
    return repr(x)


def _poke_hyper(v, serial, sign):
    """Update a mutable value inside the model's hyper-parameter dict in place (what re-training on the spot does)."""
    hp = getattr(v, "hyperparams", None)
    if not isinstance(hp, dict) or not hp:
        return False
    keys = sorted(hp, key=str)
    x = hp[keys[serial % len(keys)]]
    if isinstance(x, numpy.ndarray) and x.size:
        x.flat[0] += 1.0 * sign
    elif isinstance(x, list):
        x.append(float(serial))
    elif isinstance(x, dict) and x:
        k = sorted(x, key=str)[0]
        if isinstance(x[k], numpy.ndarray) and x[k].size:
            x[k].flat[0] += 1.0 * sign
        else:
            x["touched"] = serial
    else:
        return False
    return True


def _vdig(h, v):
    if isinstance(v, numpy.ndarray):
        h.update(v.dtype.str.encode()); h.update(repr(v.shape).encode()); h.update(numpy.ascontiguousarray(v).tobytes() if v.dtype != object else repr(v.tolist()).encode())
    elif hasattr(v, "mat") or hasattr(v, "u_a"):
        h.update(type(v).__name__.encode())
        for a in ATTRS:
            x = getattr(v, a, None)
            h.update(a.encode())
            if x is not None:
                _vdig(h, numpy.asarray(x))
        hp = getattr(v, "hyperparams", None)
        if isinstance(hp, dict):
            h.update(_deeprepr(hp).encode())
    else:
        h.update(repr(v).encode())


def cdig(c):
    """Digest of one state container (by value; cheap: arrays by bytes, labels by content)."""
    if c is None:
        return None
    h = hashlib.sha256()
    for k in sorted(c):
        h.update(k.encode())
        _vdig(h, c[k])
    return h.hexdigest()[:16]


class Sim:
    def __init__(self, sc):
        self.sc = sc
        self.events = []          # (name, info)
        self.ncalls = 0
        self.crashes = set(sc["crashes"])
        self.serial = 0
        self.stash = []           # (replicate id, container)
        self.repl = 0             # replicate counter (counts evaluate at t==0)
        self.last_ret = None      # digests of the five containers at the last operator return
        self.last_mcfg = None
        self.viol = []
        self.faults = {}
        self.start_dig = None
        self.bp = None

    def fault(self, k):
        self.faults[k] = self.faults.get(k, 0) + 1

    def tick(self, name, info):
        self.ncalls += 1
        self.events.append((name, info))
        # invariant after every event: stored initial state untouched
        if self.start_dig is not None and self.bp is not None:
            now = [cdig(getattr(self.bp, "start_" + n)) for n in NAMES]
            if now != self.start_dig:
                bad = [n for n, a, b in zip(NAMES, now, self.start_dig) if a != b]
                self.viol.append(viol("initial-state-modified", "RecurrentSelectionBreedingProgram",
                                      "start_" + bad[0], "start_%s changed (seen at event %d %s)" % (bad[0], self.ncalls, name),
                                      step=self.ncalls))
                self.start_dig = now      # report once
        if self.ncalls in self.crashes:
            self.fault("operator_crash:" + name)
            raise SimCrash(name)

    def produce(self, conts, mode):
        """What a fake operator returns, according to its behaviour."""
        self.serial += 1
        out = []
        for c in conts:
            if mode == "pure":
                c = copy.deepcopy(c)
            elif mode == "mutate_container":
                c["hist"] = list(c.get("hist", [])) + [self.serial]
            elif mode == "mutate_objects":
                for v in c.values():
                    if isinstance(v, numpy.ndarray) and v.size:
                        v.flat[0] += 1.0
                    else:
                        _poke(v, self.serial, +1)      # re-centre / re-train / re-label the object in place
            elif mode == "delkeys":
                c.pop("k", None)
                c["added%d" % (self.serial % 3)] = self.serial
            elif mode == "stash":
                self.stash.append((self.repl, c))
                c = dict(c)
            # "same": the very dict received
            c["stamp"] = self.serial
            out.append(c)
        if mode != "pure":
            self.fault("inplace:" + mode)
        # stashed containers from EARLIER replicates are mutated now (objects inside too)
        for rep, old in self.stash:
            if rep < self.repl:
                old["poison"] = self.serial
                for v in old.values():
                    if not isinstance(v, numpy.ndarray):
                        _poke(v, self.serial, -1)
                self.fault("stale_reference_mutated")
        self.last_ret = [cdig(c) for c in out]
        return out


def _mkops(sim, modes):
    def opcall(name, t_cur, conts, mcfg=None, miscout=None):
        inp = [cdig(c) for c in conts]
        if name == "eval" and t_cur == 0:
            sim.repl += 1
        info = {"t": t_cur, "inp": inp, "stamp": [c.get("stamp") if isinstance(c, dict) else None for c in conts],
                "prev": sim.last_ret, "mcfg": mcfg, "prev_mcfg": sim.last_mcfg, "repl": sim.repl,
                "misc_in": None if miscout is None else sorted(miscout)}
        if miscout is not None:
            # auxiliary output of this step, to be shown to the logbook with this step
            sim.last_aux = {name + "_aux": sim.serial + 1}
            miscout.update(sim.last_aux)
        else:
            sim.last_aux = {}
        sim.tick(name, info)

    class I(InitializationOperator):
        def initialize(self, miscout=None, **kw):
            sim.tick("init", {"t": None})
            return tuple(copy.deepcopy(sim.START))

    class P(ParentSelectionOperator):
        def pselect(self, genome, geno, pheno, bval, gmod, t_cur, t_max, miscout=None, **kw):
            opcall("psel", t_cur, (genome, geno, pheno, bval, gmod), miscout=miscout)
            o = sim.produce((genome, geno, pheno, bval, gmod), modes["psel"])
            sim.last_mcfg = ["mcfg", sim.serial]
            return (list(sim.last_mcfg), *o)

    class M(MatingOperator):
        def mate(self, mcfg, genome, geno, pheno, bval, gmod, t_cur, t_max, miscout=None, **kw):
            opcall("mate", t_cur, (genome, geno, pheno, bval, gmod), mcfg, miscout=miscout)
            return tuple(sim.produce((genome, geno, pheno, bval, gmod), modes["mate"]))

    class E(EvaluationOperator):
        def evaluate(self, genome, geno, pheno, bval, gmod, t_cur, t_max, miscout=None, **kw):
            opcall("eval", t_cur, (genome, geno, pheno, bval, gmod), miscout=miscout)
            return tuple(sim.produce((genome, geno, pheno, bval, gmod), modes["eval"]))

    class S(SurvivorSelectionOperator):
        def sselect(self, genome, geno, pheno, bval, gmod, t_cur, t_max, miscout=None, **kw):
            opcall("ssel", t_cur, (genome, geno, pheno, bval, gmod), miscout=miscout)
            return tuple(sim.produce((genome, geno, pheno, bval, gmod), modes["ssel"]))

    class L(Logbook):
        def __init__(s, rep0):
            s._rep = rep0
            s._data = {}
        data = property(lambda s: s._data, lambda s, v: setattr(s, "_data", v))
        rep = property(lambda s: s._rep, lambda s, v: setattr(s, "_rep", v))

        def _log(s, name, t_cur, conts, mcfg=None, aux=None):
            sim.tick(name, {"t": t_cur, "rep": s._rep, "inp": [cdig(c) for c in conts], "prev": sim.last_ret,
                            "mcfg": mcfg, "prev_mcfg": sim.last_mcfg, "repl": sim.repl,
                            "aux": {k: v for k, v in (aux or {}).items() if k.endswith("_aux")}, "want_aux": dict(getattr(sim, "last_aux", {}))})

        def log_initialize(s, genome, geno, pheno, bval, gmod, t_cur, t_max, **kw):
            s._log("log_init", t_cur, (genome, geno, pheno, bval, gmod), aux=kw)

        def log_pselect(s, mcfg, genome, geno, pheno, bval, gmod, t_cur, t_max, **kw):
            s._log("log_psel", t_cur, (genome, geno, pheno, bval, gmod), mcfg, aux=kw)

        def log_mate(s, mcfg, genome, geno, pheno, bval, gmod, t_cur, t_max, **kw):
            s._log("log_mate", t_cur, (genome, geno, pheno, bval, gmod), mcfg, aux=kw)

        def log_evaluate(s, genome, geno, pheno, bval, gmod, t_cur, t_max, **kw):
            s._log("log_eval", t_cur, (genome, geno, pheno, bval, gmod), aux=kw)

        def log_sselect(s, genome, geno, pheno, bval, gmod, t_cur, t_max, **kw):
            s._log("log_ssel", t_cur, (genome, geno, pheno, bval, gmod), aux=kw)

        def reset(s):
            pass

        def write(s, f):
            pass
    return I, P, M, E, S, L


def expected_seq(nrep, ngen, loginit):
    seq = []
    for _ in range(nrep):
        seq.append(("eval", 0))
        if loginit:
            seq.append(("log_init", 0))
        for g in range(1, ngen + 1):
            seq += [("psel", g), ("log_psel", g), ("mate", g), ("log_mate", g),
                    ("eval", g), ("log_eval", g), ("ssel", g), ("log_ssel", g)]
    return seq


def _check_segment(sim, seg, exp, crashed, step_ix, init_dig, rep_before):
    """History check over the events of one evolve() call."""
    C = "RecurrentSelectionBreedingProgram.evolve"
    got = [(n, e["t"]) for n, e in seg]
    k = len(got)
    if got != exp[:k] or (not crashed and got != exp):
        # first difference
        j = 0
        while j < min(len(got), len(exp)) and got[j] == exp[j]:
            j += 1
        g = got[j] if j < len(got) else None
        x = exp[j] if j < len(exp) else None
        kind = "order"
        if g is not None and x is not None and g[0] == x[0]:
            kind = "time-index"
        elif g is None:
            kind = "missing-call"
        elif x is None:
            kind = "extra-call"
        sim.viol.append(viol("call-sequence", C, kind, "evolve #%d: call %d is %s, expected %s" % (step_ix, j, g, x), step=step_ix))
        return
    # hand-over by value, replicate freshness, logbook sees the state just returned
    repl_ix = 0
    for j, (n, e) in enumerate(seg):
        if n == "eval" and e["t"] == 0:
            repl_ix += 1
            if e["inp"] != init_dig:
                bad = [nm for nm, a, b in zip(NAMES, e["inp"], init_dig) if a != b]
                sim.viol.append(viol("replicate-not-fresh", C, "container=" + bad[0],
                                     "evolve #%d replicate %d starts from a %s container different from the initial state" % (step_ix, repl_ix, bad[0]), step=step_ix))
                return
            if any(s is not None for s in e["stamp"]):
                sim.viol.append(viol("replicate-not-fresh", C, "stamped", "replicate start carries an operator stamp", step=step_ix))
                return
        else:
            if e["inp"] != e["prev"]:
                bad = [nm for nm, a, b in zip(NAMES, e["inp"], e["prev"] or [None] * 5) if a != b]
                sim.viol.append(viol("handover", C, ("log:" if n.startswith("log") else "op:") + n,
                                     "evolve #%d: %s at t=%s did not receive the %s state its predecessor returned" % (step_ix, n, e["t"], bad[0] if bad else "?"), step=step_ix))
                return
        if n in ("mate", "log_psel", "log_mate") and e["mcfg"] != e["prev_mcfg"]:
            sim.viol.append(viol("handover", C, "mcfg:" + n, "evolve #%d: %s received mcfg %r, pselect returned %r" % (step_ix, n, e["mcfg"], e["prev_mcfg"]), step=step_ix))
            return
        if not n.startswith("log") and e.get("misc_in"):
            sim.viol.append(viol("logging-after-every-step", C, "stale-auxiliary-output:op:" + n,
                                 "evolve #%d: %s at t=%s was handed an auxiliary-output dict that already held %s" % (step_ix, n, e["t"], e["misc_in"]), step=step_ix))
            return
        if n.startswith("log") and e.get("aux") != e.get("want_aux"):
            sim.viol.append(viol("logging-after-every-step", C, "auxiliary-output:" + n,
                                 "evolve #%d: %s at t=%s was shown auxiliary output %s, the step it follows produced %s" % (step_ix, n, e["t"], e.get("aux"), e.get("want_aux")), step=step_ix))
            return
        if n.startswith("log") and e["rep"] != rep_before + repl_ix:
            sim.viol.append(viol("logbook-rep", C, "rep", "evolve #%d: %s logged under rep %r, expected %r" % (step_ix, n, e["rep"], rep_before + repl_ix), step=step_ix))
            return


def execute(sc):
    sim = Sim(sc)
    sim.START = _mkstart(dict(sc["world"], empty=sc.get("empty", [])))
    if sc.get("empty"):
        sim.fault("empty_start_containers")
    I, P, M, E, S, L = _mkops(sim, sc["modes"])
    lb = L(sc.get("rep0", 0))
    start = copy.deepcopy(sim.START)
    init_dig = [cdig(c) for c in sim.START]
    kw = {}
    if sc["preinit"]:
        kw = dict(start_genome=start[0], start_geno=start[1], start_pheno=start[2], start_bval=start[3], start_gmod=start[4])
    bp = RSBP(I(), P(), M(), E(), S(), t_max=sc["t_max"], **kw)
    sim.bp = bp
    if sc["preinit"]:
        sim.start_dig = list(init_dig)
    log = []
    ncycles = 0
    crashed_any = False
    for ix, st in enumerate(sc["steps"]):
        n0 = len(sim.events)
        rep_before = lb.rep
        initialised_before = sim.start_dig is not None
        crashed = False
        try:
            if st.get("positional"):
                # the documented parameter order, by position: evolve(nrep, ngen, lbook, loginit, verbose)
                bp.evolve(st["nrep"], st["ngen"], lb, st["loginit"], False)
            else:
                bp.evolve(nrep=st["nrep"], ngen=st["ngen"], lbook=lb, loginit=st["loginit"])
        except SimCrash:
            crashed = True
            crashed_any = True
        except Exception as e:
            sim.viol.append(viol("unexpected-exception", "RecurrentSelectionBreedingProgram.evolve", type(e).__name__,
                                 "evolve #%d raised %s: %s" % (ix, type(e).__name__, e), step=ix))
            break
        seg = sim.events[n0:]
        if seg and seg[0][0] == "init":
            if sc["preinit"] or initialised_before:
                sim.viol.append(viol("call-sequence", "RecurrentSelectionBreedingProgram.evolve", "re-initialised",
                                     "initop called although the programme was initialised", step=ix))
            seg = seg[1:]
        if sim.start_dig is None and bp.is_initialized():
            sim.start_dig = [cdig(getattr(bp, "start_" + n)) for n in NAMES]
            if sim.start_dig != init_dig:
                sim.viol.append(viol("initial-state-modified", "RecurrentSelectionBreedingProgram", "after-initialize",
                                     "stored initial state differs from what the initialisation operator returned", step=ix))
        exp = expected_seq(st["nrep"], st["ngen"], st["loginit"])
        _check_segment(sim, seg, exp, crashed, ix, init_dig, rep_before)
        ncycles += sum(1 for n, e in seg if n == "ssel")
        log.append({"step": ix, "crashed": crashed, "calls": [(n, e["t"], e.get("rep"), e["inp"] if "inp" in e else None) for n, e in seg]})
        if sim.viol:
            break
    # final invariant on the stored initial state
    if sim.start_dig is not None and not any(v["clause"] == "initial-state-modified" for v in sim.viol):
        now = [cdig(getattr(bp, "start_" + n)) for n in NAMES]
        if now != init_dig:
            bad = [n for n, a, b in zip(NAMES, now, init_dig) if a != b]
            sim.viol.append(viol("initial-state-modified", "RecurrentSelectionBreedingProgram", "start_" + bad[0],
                                 "start_%s differs from the initial state at the end of the run" % bad[0]))
    crash_kinds = sorted({k.split(":", 1)[1] for k in sim.faults if k.startswith("operator_crash")})
    trace = "%s|pre=%s|%s|crash=%s" % ([(s["nrep"], s["ngen"], s["loginit"]) for s in sc["steps"]], sc["preinit"],
                                        sorted(sc["modes"].items()), crash_kinds)
    probes = {}
    if crashed_any and len(sc["steps"]) > 1:
        probes["restart_after_crash"] = 1
    if any(r < sim.repl for r, _ in sim.stash):
        probes["stash_spans_replicates"] = 1
    if not sc["preinit"]:
        probes["via_initop"] = 1
    return {"violations": sim.viol, "log": log, "trace": trace, "nontrivial": ncycles > 0 or crashed_any,
            "faults": sim.faults, "probes": probes,
            "sim": {"generation_cycles": ncycles, "replicates": sim.repl, "collaborator_calls": sim.ncalls}}
