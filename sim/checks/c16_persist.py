"""C16 — saving, loading and copying reproduce objects exactly.

A simulated store (1-3 HDF5 files on a scratch tmpfs directory or in memory, each
with several group paths; CSV files and data-frame slots) receives a history of
writes / overwrites / reads / copies / mutations / reopen events.  Reference
model: location -> canonical snapshot of the last object written there.  Hazards
injected are legal histories only: richer->poorer and poorer->richer overwrites,
a different class written to the same group, sibling groups interleaved, handles
kept open vs reopened, append-mode reuse.  No I/O-error injection (C16 does not
state what a failed write leaves behind).
"""
import copy
import io
import os
import random
import shutil

import h5py
import numpy

from .. import compat  # noqa: F401
from ..core import viol
from .. import objects, tabular
from ..snapshot import snap, diff

PROP = "C16"
RUNS = {"quick": 36000, "thorough": 600000}
WALL = {"quick": 200, "thorough": 2400}
RUN_TIMEOUT = 120
RULE = ("scenario = pool of 2-4 objects from one class family (variants: optional label arrays present/absent, grouped/ungrouped, "
        "non-ASCII labels, sizes 1-6) plus one object of another class; history of <= 10 ops: write(obj, file, group, fmt in "
        "{hdf5, csv, pandas, csv_dict, pandas_dict}, via path|handle|memory), read, copy, deepcopy, mutate(copy), reopen, vcf import; "
        "distinct = (class, op-kind sequence, formats, hazards fired); non-trivial = at least one read or copy check executed")
COMPONENTS = {"real": ["to_hdf5/from_hdf5, to_csv/from_csv, to_pandas/from_pandas, to_*_dict/from_*_dict, from_vcf, __copy__/__deepcopy__ of 37 pybrops classes",
                       "h5py 3.16 (file-like object and path back ends)", "pandas CSV reader/writer", "cyvcf2 (VCF import, real files)"],
              "stub": ["storage: per-run scratch directory on tmpfs and io.BytesIO-backed HDF5 files owned by the simulator"]}
ASSUMPTIONS = ["matching options are fixed per class (sim/tabular.py): BV matrices unscale=True both ways, genetic maps same unit both ways, phenotyping read with its own model",
               "CSV / data-frame paths: floats compared to 4 ulp (pandas' float parser is not round-trip exact), group-metadata cache not compared (formats carry labels and order only), order and content are separate clauses",
               "reads use the class of the last write at that location",
               "failed writes / I/O errors are outside C16 and are not injected"]

GROUPS = [None, "g", "g/", "a/b", "grp/é", "x y", "deep/er/path"]


def _norm(g):
    return "" if g is None else g.rstrip("/")


def generate(R, tier):
    fam_keys = {}
    for k, e in objects.B.items():
        fam_keys.setdefault(e["family"], []).append(k)
    fam = R.choice(sorted(fam_keys))
    key = R.choice(sorted(fam_keys[fam]))
    nobj = R.randint(2, 4)
    base = objects.variant(R)
    pool = []
    for i in range(nobj):
        v = dict(base)
        # same class, different richness: flip optional arrays / grouping / sizes
        for f in ("taxa", "taxa_grp", "trait", "vrnt", "grouped", "nonascii"):
            if R.random() < 0.4:
                v[f] = not v[f]
        if R.random() < 0.4:
            v["nt"] = R.randint(1, 4)
        if R.random() < 0.3:
            v["nv"] = R.randint(1, 6)
        k2 = key if R.random() < 0.8 else R.choice(sorted(fam_keys[fam]))
        pool.append({"key": k2, "seed": R.randrange(1 << 30), "var": v})
    other = R.choice(sorted(objects.B))
    pool.append({"key": other, "seed": R.randrange(1 << 30), "var": objects.variant(R)})
    files = ["f%d" % i for i in range(R.randint(1, 3))]
    steps = []
    nsteps = R.randint(2, 10)
    live = len(pool)
    for _ in range(nsteps):
        r = R.random()
        if r < 0.45:
            fmts = tabular.formats_for(pool[0]["key"])
            steps.append({"op": "write", "obj": R.randrange(live), "file": R.choice(files), "group": R.choice(GROUPS[:4] if R.random() < 0.7 else GROUPS),
                          "fmt": R.choice(fmts), "via": R.choice(["path", "handle", "handle", "memory"]), "overwrite": True})
        elif r < 0.65:
            steps.append({"op": "read", "pick": R.randrange(1000)})
        elif r < 0.80:
            steps.append({"op": "copy", "obj": R.randrange(live) if R.random() < 0.6 else 0, "deep": R.random() < 0.6, "method": R.random() < 0.4})
            live += 1
        elif r < 0.90:
            steps.append({"op": "mutate", "obj": R.randrange(live), "how": R.randrange(1000)})
        elif r < 0.95:
            steps.append({"op": "reopen", "file": R.choice(files)})
        else:
            steps.append({"op": "vcf", "seed": R.randrange(1 << 30), "ntaxa": R.randint(1, 4), "nvrnt": R.randint(1, 6), "phased_cls": R.random() < 0.6,
                          "auto_group": R.random() < 0.7})
    # always finish with reads of everything written
    steps.append({"op": "readall"})
    return {"pool": pool, "files": files, "steps": steps}


def shrink(sc):
    for i, p in enumerate(sc["pool"]):
        v = p["var"]
        for f, small in (("nt", 1), ("nv", 1), ("ntr", 1)):
            if v[f] > small:
                c = copy.deepcopy(sc)
                c["pool"][i]["var"][f] = v[f] - 1
                yield c
        if v["nonascii"]:
            c = copy.deepcopy(sc)
            c["pool"][i]["var"]["nonascii"] = False
            yield c
    for i, st in enumerate(sc["steps"]):
        if st["op"] == "write":
            if st["via"] != "path":
                c = copy.deepcopy(sc)
                c["steps"][i]["via"] = "path"
                yield c
            if st["group"] not in (None, "g"):
                c = copy.deepcopy(sc)
                c["steps"][i]["group"] = "g"
                yield c


class Store:
    """Scratch directory + open-handle registry + in-memory files."""

    def __init__(self, tag):
        base = "/dev/shm" if os.path.isdir("/dev/shm") and os.access("/dev/shm", os.W_OK) else (os.environ.get("TMPDIR") or "/tmp")
        self.dir = os.path.join(base, "pybrops-sim-%d-%s" % (os.getpid(), tag))
        shutil.rmtree(self.dir, ignore_errors=True)
        os.makedirs(self.dir)
        self.handles = {}        # file -> h5py.File (on disk, mode a)
        self.mem = {}            # file -> (BytesIO, h5py.File)
        self.frames = {}         # slot -> object returned by to_pandas*

    def path(self, name, ext=".h5"):
        return os.path.join(self.dir, name + ext)

    def handle(self, name):
        if name not in self.handles:
            self.handles[name] = h5py.File(self.path(name), "a")
        return self.handles[name]

    def memfile(self, name):
        if name not in self.mem:
            bio = io.BytesIO()
            self.mem[name] = (bio, h5py.File(bio, "w"))
        return self.mem[name][1]

    def close_handle(self, name):
        h = self.handles.pop(name, None)
        if h is not None:
            h.close()

    def reopen(self, name):
        self.close_handle(name)
        if name in self.mem:
            bio, h = self.mem[name]
            h.close()
            self.mem[name] = (bio, h5py.File(bio, "a"))

    def close(self):
        for h in list(self.handles.values()):
            try:
                h.close()
            except Exception:
                pass
        for bio, h in list(self.mem.values()):
            try:
                h.close()
            except Exception:
                pass
        shutil.rmtree(self.dir, ignore_errors=True)


SKIP = ("spline", "rng")


def _snap(o):
    return snap(o, skip=SKIP)


def _mutate(o, how):
    """In-place element assignment through every ndarray attribute of ``o``."""
    n = 0
    for name in sorted(dir(type(o))):
        if name.startswith("_") or not isinstance(getattr(type(o), name, None), property):
            continue
        try:
            a = getattr(o, name)
        except Exception:
            continue
        if isinstance(a, numpy.ndarray) and a.size and a.flags.writeable:
            try:
                if a.dtype == object:
                    a.flat[how % a.size] = "MUT%d" % how
                elif a.dtype.kind == "b":
                    a.flat[how % a.size] = not a.flat[how % a.size]
                elif a.dtype.kind == "f":
                    a.flat[how % a.size] = a.flat[how % a.size] + 1.5
                elif a.dtype.kind in "iu":
                    a.flat[how % a.size] = (int(a.flat[how % a.size]) + 1) % 2 if a.dtype.itemsize == 1 else int(a.flat[how % a.size]) + 1
                else:
                    continue
                n += 1
            except Exception:
                pass
    return n


def _shared(a, b):
    out = []
    for name in sorted(dir(type(a))):
        if name.startswith("_") or not isinstance(getattr(type(a), name, None), property):
            continue
        try:
            x, y = getattr(a, name), getattr(b, name)
        except Exception:
            continue
        if isinstance(x, numpy.ndarray) and isinstance(y, numpy.ndarray) and x.size and y.size and numpy.shares_memory(x, y):
            out.append(name)
    return out


def execute(sc):
    V, log, faults, probes = [], [], {}, {}
    objs = [objects.build(p["key"], p["seed"], p["var"]) for p in sc["pool"]]
    keys = [p["key"] for p in sc["pool"]]
    mutable = [False] * len(objs)         # only deep copies may be mutated
    sources = {}                          # deep copy index -> (source index, source snapshot at copy time)
    model = {}                            # location -> {cls key, snap, obj index, fmt}
    store = Store("%s" % sc.get("run_index", "r"))
    nchecks = 0
    kinds = []
    mutated = set()
    written = set()

    def fault(k):
        faults[k] = faults.get(k, 0) + 1

    def do_read(loc, ix):
        nonlocal nchecks
        ent = model[loc]
        fmt = ent["fmt"]
        C = "%s.%s" % (ent["key"], tabular.reader_name(fmt))
        try:
            back = tabular.read(store, ent, loc)
        except Exception as e:
            V.append(viol("read-equals-last-write", C, "raises:%s|%s" % (type(e).__name__, ent["hist"]),
                          "step %d: reading %s back raised %s: %s" % (ix, loc, type(e).__name__, e), step=ix))
            return
        nchecks += 1
        probs = tabular.compare(ent, back, fmt)
        log.append(["read", ix, list(loc), fmt, len(probs)])
        for clause, field, msg in probs[:4]:
            if clause == "order-not-preserved":
                # from_csv is read_csv + from_pandas: one component, history irrelevant (files are replaced whole)
                comp, cond = "%s.from_pandas" % ent["key"], "field=%s" % field
            else:
                comp, cond = C, ("field=%s|%s" % (field, ent["hist"]) if fmt == "hdf5" else "field=%s" % field)
            V.append(viol(clause, comp, cond,
                          "step %d: %s read from %s after history %s: %s" % (ix, ent["key"], loc, ent["hist"], msg), step=ix))

    try:
        for ix, st in enumerate(sc["steps"]):
            op = st["op"]
            kinds.append(op if op != "write" else "write:" + st["fmt"])
            if op == "write":
                clean = [j for j in range(len(objs)) if j not in mutated]      # mutated copies may be internally inconsistent
                i = clean[st["obj"] % len(clean)]
                o, key = objs[i], keys[i]
                fmt = st["fmt"]
                if fmt not in tabular.formats_for(key):
                    fmt = "hdf5" if "hdf5" in tabular.formats_for(key) else tabular.formats_for(key)[0]
                if fmt != "hdf5" and tabular.family(key) != "gmap" and not tabular.fully_labelled(o):
                    fmt = "hdf5"          # tabular formats cannot represent an absent label array
                loc = tabular.location(st, fmt)
                s_now = _snap(o)
                prev = model.get(loc)
                hist = "fresh"
                if prev is not None:
                    if prev["key"] != key:
                        hist = "other-class"
                        fault("overwrite_other_class")
                    else:
                        r0, r1 = tabular.richness(prev["snap"]), tabular.richness(s_now)
                        hist = "richer->poorer" if r1 < r0 else ("poorer->richer" if r1 > r0 else "same-richness")
                        fault("overwrite_" + hist)
                C = "%s.%s" % (key, tabular.writer_name(fmt))
                try:
                    tabular.write(store, o, key, st, fmt, loc)
                except Exception as e:
                    V.append(viol("write-completes", C, "raises:%s|%s" % (type(e).__name__, hist),
                                  "step %d: writing %s to %s (%s) raised %s: %s" % (ix, key, loc, hist, type(e).__name__, e), step=ix))
                    break
                if _snap(o) != s_now:
                    V.append(viol("write-leaves-object", C, "object-changed", "step %d: %s changed by being written" % (ix, key), step=ix))
                    break
                written.add(i)
                frozen = copy.deepcopy(o) if fmt != "hdf5" else None
                model[loc] = {"key": key, "snap": s_now, "obj": frozen if frozen is not None else o, "frozen": frozen, "fmt": fmt, "hist": hist,
                              "gpmod": getattr(o, "gpmod", None)}
                if st["via"] in ("handle", "memory") and fmt == "hdf5":
                    fault("handle_kept_open")
                log.append(["write", ix, list(loc), key, fmt, hist])
            elif op == "read":
                if model:
                    locs = sorted(model, key=str)
                    do_read(locs[st["pick"] % len(locs)], ix)
            elif op == "readall":
                for loc in sorted(model, key=str):
                    do_read(loc, ix)
                    if V:
                        break
            elif op == "copy":
                i = st["obj"] % len(objs)
                src = objs[i]
                s0 = _snap(src)
                C = "%s.%s" % (keys[i], "__deepcopy__" if st["deep"] else "__copy__")
                use_method = st.get("method") and hasattr(src, "deepcopy" if st["deep"] else "copy")
                if use_method:
                    C = "%s.%s" % (keys[i], "deepcopy" if st["deep"] else "copy")
                    fault("copy_through_method")
                try:
                    if use_method:
                        c = src.deepcopy() if st["deep"] else src.copy()
                    else:
                        c = copy.deepcopy(src) if st["deep"] else copy.copy(src)
                except Exception as e:
                    V.append(viol("copy-equals-source", C, "raises:%s" % type(e).__name__, "step %d: %s" % (ix, e), step=ix))
                    break
                nchecks += 1
                d = diff(s0, _snap(c))
                if d:
                    V.append(viol("copy-equals-source", C, "field=%s" % d[0][0].split(".")[1] if "." in d[0][0] else d[0][0],
                                  "step %d: copy differs from source at %s" % (ix, d[0][0]), step=ix))
                    break
                if _snap(src) != s0:
                    V.append(viol("copy-leaves-source", C, "source-changed", "step %d: source changed by copying" % ix, step=ix))
                    break
                if st["deep"]:
                    sh = _shared(src, c)
                    if sh:
                        V.append(viol("deepcopy-shares-no-state", C, "field=%s" % sh[0], "step %d: deep copy shares memory with its source in %s" % (ix, sh), step=ix))
                        break
                    # ... nor with any other live object of the same class (e.g. an earlier copy)
                    for j, other in enumerate(objs):
                        if other is not src and type(other) is type(c):
                            sh = _shared(other, c)
                            if sh:
                                V.append(viol("deepcopy-shares-no-state", C, "other-object|field=%s" % sh[0], "step %d: deep copy shares memory (%s) with another object (pool index %d)" % (ix, sh, j), step=ix))
                                break
                    if V:
                        break
                    sources[len(objs)] = (i, s0)
                if i in mutated:
                    mutated.add(len(objs))
                objs.append(c)
                keys.append(keys[i])
                mutable.append(bool(st["deep"]))
                log.append(["copy", ix, keys[i], st["deep"]])
            elif op == "mutate":
                # an exported data frame may alias the arrays of the object it was made from (C16 does not
                # promise otherwise), so an object is never mutated after it has been written
                cands = [j for j in range(len(objs)) if mutable[j] and j not in written]
                if cands:
                    j = cands[st["obj"] % len(cands)]
                    n = _mutate(objs[j], st["how"])
                    mutated.add(j)
                    fault("mutate_deep_copy")
                    si, s0 = sources[j]
                    nchecks += 1
                    # the source (never mutated itself unless it is a deep copy that was mutated earlier) must be unaffected
                    if not mutable[si] and _snap(objs[si]) != s0:
                        d = diff(s0, _snap(objs[si]))
                        V.append(viol("deepcopy-shares-no-state", "%s.__deepcopy__" % keys[j], "field=%s" % (d[0][0].split(".")[1] if d and "." in d[0][0] else "?"),
                                      "step %d: mutating a deep copy changed its source" % ix, step=ix))
                        break
                    log.append(["mutate", ix, keys[j], n])
            elif op == "reopen":
                store.reopen(st["file"])
                fault("reopen_file")
            elif op == "vcf":
                nchecks += 1
                probs = tabular.vcf_check(store, st)
                log.append(["vcf", ix, len(probs)])
                if probs:
                    clause, comp, cond, msg = probs[0]
                    V.append(viol(clause, comp, cond, "step %d: %s" % (ix, msg), step=ix))
            if V:
                break
    finally:
        store.close()
    hz = sorted(faults)
    trace = "%s|%s|%s" % (sc["pool"][0]["key"], kinds, hz)
    return {"violations": V, "log": log, "trace": trace, "nontrivial": nchecks > 0, "faults": faults, "probes": probes,
            "sim": {"store_ops": len(sc["steps"]), "equality_checks": nchecks}}
