"""C07 — selection protocols turn criteria into valid, correct cross configurations.

Real selection protocols (EBV, GEBV, random, optimal contribution, weighted and
generalised weighted genomic selection, mean expected heterozygosity, mean
genomic relationship in the four decision encodings; family EBV, allele
frequency distance, allele unavailability, optimal population value,
multi-objective genomic selection, genotype builder as subsets; optimal haploid
value, usefulness criterion and expected maximum breeding value in their
mate-selection form) run on generated populations with small explicit
optimisers (exact sorting optimiser for truncation; tiny GA / NSGA-II
otherwise), under a seeded global generator, an owned entropy/clock world and a
simulator-owned generator handed to the protocol (scripted shuffles: identity /
reversal / rotation).  A twin run on the permuted and relabelled population
checks equivariance.
"""
import copy
import random

import numpy

from .. import compat  # noqa: F401
from ..core import viol, adig
from .. import rngseam, world
from ..world import obj

from pybrops.core.random import prng
from pybrops.breed.prot.sel import EstimatedBreedingValueSelection as EBVS
from pybrops.breed.prot.sel import GenomicEstimatedBreedingValueSelection as GEBVS
from pybrops.breed.prot.sel import RandomSelection as RNDS
from pybrops.breed.prot.sel import OptimalContributionSelection as OCSS
from pybrops.breed.prot.sel import OptimalHaploidValueSelection as OHVS
from pybrops.breed.prot.sel import UsefulnessCriterionSelection as UCS
from pybrops.breed.prot.sel import WeightedGenomicSelection as WGSS
from pybrops.breed.prot.sel import GeneralizedWeightedGenomicEstimatedBreedingValueSelection as GWGS
from pybrops.breed.prot.sel import FamilyEstimatedBreedingValueSelection as FEBVS
from pybrops.breed.prot.sel import MeanExpectedHeterozygositySelection as MEHS
from pybrops.breed.prot.sel import MeanGenomicRelationshipSelection as MGRS
from pybrops.breed.prot.sel import PopulationAlleleFrequencyDistanceSelection as PAFDS
from pybrops.breed.prot.sel import PopulationAlleleUnavailabilitySelection as PAUS
from pybrops.breed.prot.sel import OptimalPopulationValueSelection as OPVS
from pybrops.breed.prot.sel import ExpectedMaximumBreedingValueSelection as EMBVS
from pybrops.breed.prot.sel import MultiObjectiveGenomicSelection as MOGSS
from pybrops.breed.prot.sel import GenotypeBuilderSelection as GBS
from pybrops.breed.prot.mate.TwoWayDHCross import TwoWayDHCross
from pybrops.opt.algo.SortingSubsetOptimizationAlgorithm import SortingSubsetOptimizationAlgorithm
from pybrops.opt.algo.SubsetGeneticAlgorithm import SubsetGeneticAlgorithm
from pybrops.opt.algo.RealGeneticAlgorithm import RealGeneticAlgorithm
from pybrops.opt.algo.IntegerGeneticAlgorithm import IntegerGeneticAlgorithm
from pybrops.opt.algo.BinaryGeneticAlgorithm import BinaryGeneticAlgorithm
from pybrops.opt.algo.NSGA2SubsetGeneticAlgorithm import NSGA2SubsetGeneticAlgorithm
from pybrops.opt.algo.NSGA2RealGeneticAlgorithm import NSGA2RealGeneticAlgorithm
from pybrops.opt.algo.NSGA2IntegerGeneticAlgorithm import NSGA2IntegerGeneticAlgorithm
from pybrops.opt.algo.NSGA2BinaryGeneticAlgorithm import NSGA2BinaryGeneticAlgorithm
from pybrops.popgen.cmat.fcty.DenseMolecularCoancestryMatrixFactory import DenseMolecularCoancestryMatrixFactory
from pybrops.model.vmat.fcty.DenseTwoWayDHAdditiveGeneticVarianceMatrixFactory import DenseTwoWayDHAdditiveGeneticVarianceMatrixFactory
from pybrops.popgen.gmap.HaldaneMapFunction import HaldaneMapFunction
from pybrops.core.random import sampling as _sampling  # noqa: F401

PROP = "C07"
RUNS = {"quick": 20000, "thorough": 500000}
WALL = {"quick": 240, "thorough": 2700}
RUN_TIMEOUT = 180
RULE = ("scenario = protocol family (ebv, gebv, random, ocs, ohv, uc, wgs, gwgebv, febv, meh, mgr, pafd, pau, opv, embv, mogs, gb) x decision encoding (subset/real/integer/binary; mate-selection for ohv/uc), "
        "population 4-9 taxa x 4-10 markers x 1-2 traits, cross design (ncross 1-5, nparent 2, nmating, nprogeny), single objective (exact sorting "
        "optimiser for subsets, tiny GA otherwise) or multi-objective (tiny NSGA-II with a declared preference transformation), global seed, protocol "
        "generator kind and shuffle script, twin run on the permuted/relabelled population; distinct = (family, encoding, nobj, design class, script); "
        "non-trivial = select() and sample_xconfig() completed")
COMPONENTS = {"real": ["46 concrete selection protocol classes of 17 families (select, sosolve/mosolve, problem construction)", "8 selection configuration classes (sample_xconfig)",
                       "sampling utilities", "optimisers (sorting, GA, NSGA-II)", "coancestry / variance-matrix factories for OCS / UC"],
              "stub": ["OS entropy / clock world", "generator subclass with scripted shuffles"]}
ASSUMPTIONS = ["default 250-generation optimisers are replaced by explicit small ones",
               "the truncation clause uses populations whose criterion values are pairwise distinct (ties excluded by construction)",
               "'within one of the proportional share' is read as |count - share| <= 1 (+1e-9)",
               "equivariance is checked for the exact (sorting) optimiser only; stochastic optimisers are not expected to commute with relabelling"]

FAM = {"ebv": EBVS, "gebv": GEBVS, "random": RNDS, "ocs": OCSS, "ohv": OHVS, "uc": UCS,
       "wgs": WGSS, "gwgebv": GWGS, "febv": FEBVS, "meh": MEHS, "mgr": MGRS, "pafd": PAFDS, "pau": PAUS, "opv": OPVS,
       "embv": EMBVS, "mogs": MOGSS, "gb": GBS}
PREFIX = {"ebv": "EstimatedBreedingValue", "gebv": "GenomicEstimatedBreedingValue", "random": "Random", "ocs": "OptimalContribution",
          "ohv": "OptimalHaploidValue", "uc": "UsefulnessCriterion",
          "wgs": "WeightedGenomic", "gwgebv": "GeneralizedWeightedGenomicEstimatedBreedingValue", "febv": "FamilyEstimatedBreedingValue",
          "meh": "MeanExpectedHeterozygosity", "mgr": "MeanGenomicRelationship", "pafd": "PopulationAlleleFrequencyDistance",
          "pau": "PopulationAlleleUnavailability", "opv": "OptimalPopulationValue", "embv": "ExpectedMaximumBreedingValue",
          "mogs": "MultiObjectiveGenomic", "gb": "GenotypeBuilder"}
# families whose solution names candidate crosses (mate selection) rather than individuals
MATE = ("ohv", "uc", "embv")
# encodings each of the added families is exercised in (the others are rejected by the pinned tree before a configuration exists)
ENCS = {"wgs": ["subset", "subset", "real", "integer", "binary"], "gwgebv": ["subset", "subset", "real", "integer", "binary"],
        "meh": ["subset", "real", "integer", "binary"], "mgr": ["subset", "real", "integer", "binary"],
        "febv": ["subset"], "pafd": ["subset"], "pau": ["subset"], "opv": ["subset"], "mogs": ["subset"], "gb": ["subset"],
        "embv": ["subset", "subset", "real", "binary"]}
ENC = {"subset": "Subset", "real": "Real", "integer": "Integer", "binary": "Binary"}
SO = {"subset": SubsetGeneticAlgorithm, "real": RealGeneticAlgorithm, "integer": IntegerGeneticAlgorithm, "binary": BinaryGeneticAlgorithm}
MO = {"subset": NSGA2SubsetGeneticAlgorithm, "real": NSGA2RealGeneticAlgorithm, "integer": NSGA2IntegerGeneticAlgorithm, "binary": NSGA2BinaryGeneticAlgorithm}


def _sumtr(x, latent, **k):
    return latent.sum(keepdims=True)


def _absw(u):
    return numpy.absolute(u)


def _postarget(u):
    return (u > 0.0).astype(float)


def _ndset(mat, kind="negsum", col=0, **k):
    # declared preference over the non-dominated set; default: smallest sum of (minimised) objectives
    mat = numpy.asarray(mat, dtype=float)
    if kind == "column":
        return mat[:, col % mat.shape[1]].copy()
    if kind == "spread":
        return mat.max(1) - mat.min(1)
    return -mat.sum(1)


def generate(R, tier):
    fam = R.choice(["ebv", "ebv", "gebv", "gebv", "random", "ocs", "ohv", "uc"])
    enc = R.choice(["subset", "subset", "real", "integer", "binary"])
    if fam in ("ohv", "uc"):
        enc = R.choice(["subset", "subset", "real"])
    direct = None
    if R.random() < 0.12:
        # a selection configuration built directly from a decision vector (any numeric dtype the encoding admits)
        direct = {"mate": R.random() < 0.5, "dtype": R.choice(["bool", "int8", "int64", "int32", "float64", "float32", "uint8"]), "seed": R.randrange(1 << 30)}
    more = R.random() < 0.45
    fam2 = R.choice(["wgs", "wgs", "gwgebv", "gwgebv", "febv", "meh", "mgr", "pafd", "pau", "opv", "embv", "mogs", "gb"])
    enc2 = R.choice(ENCS[fam2])
    alpha = R.choice([0.0, 0.25, 0.5, 1.0])
    if more:
        fam, enc = fam2, enc2
    nt = R.randint(4, 9)
    ncross = R.randint(1, 5)
    nparent = 2 if fam in ("uc", "embv") else R.choice([2, 2, 2, 3, 4])      # the usefulness criterion is defined for two-way crosses
    if enc == "subset" and fam not in MATE:
        ncross = max(1, min(ncross, nt // nparent))          # a subset solution names ncross*nparent distinct individuals
        if ncross * nparent > nt:
            nparent = 2
            ncross = max(1, min(ncross, nt // 2))
    if fam in MATE and enc == "subset":
        import math
        ncross = max(1, min(ncross, math.comb(nt, nparent)))   # a subset of the candidate crosses (unordered parent sets)
    return {"fam": fam, "enc": enc, "alpha": alpha, "direct": direct, "reuse": R.random() < 0.3, "world": {"seed": R.randrange(1 << 30), "ntaxa": nt, "nvrnt": R.randint(4, 10), "ntrait": R.randint(1, 2)},
            "ncross": ncross, "nparent": nparent, "nmating": R.randint(1, 2), "nprogeny": R.randint(1, 3),
            "mo": R.random() < 0.3, "exact": R.random() < 0.6, "seed": R.randrange(1 << 31), "entropy_world": R.randrange(1000),
            "rng": {"kind": R.choice(["Generator", "RandomState"]), "seed": R.randrange(1 << 30),
                    "script": ([] if R.random() < 0.6 else [{"method": "shuffle", "mode": R.choice(["identity", "reverse", "rotate"])}])},
            "ndset": {"wt": R.choice([1.0, 1.0, -1.0, 0.5, -2.0]), "kind": R.choice(["negsum", "negsum", "column", "spread"]), "col": R.randint(0, 2)},
            "mo_wt": [R.choice([1.0, 1.0, -1.0, 2.5, 0.5]) for _ in range(8)], "so_wt": R.choice([1.0, 1.0, 1.0, -1.0, 2.0, -0.5]),
            "perm": R.randrange(1 << 30), "ngen": R.randint(1, 3), "pop": R.choice([6, 8]), "unique_parents": R.random() < 0.7}


def shrink(sc):
    if sc["rng"]["script"]:
        c = copy.deepcopy(sc)
        c["rng"]["script"] = []
        yield c
    for k, small in (("ncross", 1), ("nmating", 1), ("nprogeny", 1), ("ngen", 1), ("nparent", 2)):
        if sc[k] > small:
            c = copy.deepcopy(sc)
            c[k] -= 1
            yield c
    w = sc["world"]
    for k, small in (("ntaxa", 4), ("nvrnt", 4), ("ntrait", 1)):
        if w[k] > small and not (k == "ntaxa" and sc["enc"] == "subset" and ((w[k] - 1) // sc["nparent"] < sc["ncross"] or sc["fam"] in MATE)):
            c = copy.deepcopy(sc)
            c["world"][k] -= 1
            yield c


def _population(w, perm=None):
    R = random.Random(w["seed"])
    nt, nv, ntr = w["ntaxa"], w["nvrnt"], w["ntrait"]
    pg = world.pgmat(R, nt, nv, min(2, nv), names=["L%d" % i for i in range(nt)])
    gm = world.algmod(R, nv, ntr, palette=(-2.0, -1.0, -0.25, 0.5, 1.0, 3.0))
    # distinct criterion values: add a tiny taxon-specific tilt to the effects through an extra genotype pattern
    raw = numpy.array([[R.gauss(0, 1) + 0.001 * i for _ in range(ntr)] for i in range(nt)])
    if perm is not None:
        pg = pg.select_taxa(perm)
        pg.taxa = obj(["Z%d" % i for i in range(nt)])
        raw = raw[perm]
    if not pg.is_grouped_vrnt():
        pg.group_vrnt()
    from pybrops.popgen.bvmat.DenseBreedingValueMatrix import DenseBreedingValueMatrix
    bv = DenseBreedingValueMatrix.from_numpy(raw, taxa=pg.taxa, taxa_grp=pg.taxa_grp, trait=gm.trait)
    return pg, gm, bv, raw


def _protocol(sc, g, ntr):
    fam, enc = sc["fam"], sc["enc"]
    cls = getattr(FAM[fam], PREFIX[fam] + ENC[enc] + "Selection")
    kw = dict(ntrait=ntr, ncross=sc["ncross"], nparent=sc["nparent"], nmating=sc["nmating"], nprogeny=sc["nprogeny"], rng=g)
    if fam in ("ebv", "gebv", "ocs", "febv"):
        kw["unscale"] = True
    if fam == "gwgebv":
        kw["alpha"] = sc.get("alpha", 0.5)
    if fam in ("pafd", "pau", "mogs"):
        kw.update(weight=_absw, target=_postarget)
    if fam in ("opv", "gb"):
        kw["nhaploblk"] = 2
    if fam == "gb":
        kw["nbestfndr"] = 2
    if fam == "embv":
        kw.update(nrep=2, mateprot=TwoWayDHCross(rng=g), unique_parents=sc.get("unique_parents", True))
    if fam in ("ocs", "mgr"):
        kw["cmatfcty"] = DenseMolecularCoancestryMatrixFactory()
    if fam == "ohv":
        kw.update(nhaploblk=2, unique_parents=sc.get("unique_parents", True))
    if fam == "uc":
        kw.update(nself=0, upper_percentile=0.1, vmatfcty=DenseTwoWayDHAdditiveGeneticVarianceMatrixFactory(), gmapfn=HaldaneMapFunction(), unique_parents=sc.get("unique_parents", True))
    nlat = ntr + 1 if fam == "ocs" else (1 if fam in ("meh", "mgr") else (2 * ntr if fam == "mogs" else ntr))   # pafd/pau: latentfn returns one entry per trait (their nlatent attribute says 2t)
    if fam == "febv":
        nlat = 0                      # latent vector also carries one entry per family: single objective only
    if sc["mo"] and nlat >= 2:
        nd = sc.get("ndset") or {"wt": 1.0, "kind": "negsum", "col": 0}
        ow = numpy.array((sc.get("mo_wt") or [1.0] * 8)[:nlat], dtype=float)
        kw.update(nobj=nlat, obj_wt=ow, ndset_wt=nd["wt"], ndset_trans=_ndset, ndset_trans_kwargs={"kind": nd["kind"], "col": nd["col"]}, moalgo=MO[enc](ngen=sc["ngen"], pop_size=sc["pop"]))
        mo = True
    else:
        algo = SortingSubsetOptimizationAlgorithm() if (enc == "subset" and sc["exact"]) else SO[enc](ngen=sc["ngen"], pop_size=sc["pop"])
        kw.update(nobj=1, obj_wt=numpy.array([float(sc.get("so_wt", 1.0))]), obj_trans=_sumtr, soalgo=algo)
        mo = False
    return cls, kw, mo


def _weighted_gebv(pg, gm, alpha):
    """Independent criterion of the (generalised) weighted genomic selection
    protocols, from the allele calls: sum over traits and loci of
    count(allele 1) * effect * (frequency of the favourable allele)^-alpha,
    the favourable allele being allele 1 for a positive effect and allele 0
    for a negative one (a frequency of zero leaves the effect unweighted)."""
    calls = numpy.asarray(pg.mat, dtype=int)                # (phases, taxa, loci)
    nph, nt, nv = calls.shape
    u = numpy.asarray(gm.u_a, dtype=float)                  # (loci, traits)
    out = []
    tot = [sum(int(calls[m, i, j]) for m in range(nph) for i in range(nt)) for j in range(nv)]
    for i in range(nt):
        acc = 0.0
        for j in range(nv):
            x = sum(int(calls[m, i, j]) for m in range(nph))
            for t in range(u.shape[1]):
                e = float(u[j, t])
                if e == 0.0:
                    continue
                f = tot[j] / float(nph * nt) if e > 0 else (nph * nt - tot[j]) / float(nph * nt)
                w = 1.0 if f == 0.0 else f ** (-alpha)
                acc += x * e * w
        out.append(acc)
    return numpy.array(out)


def _repeats(x):
    return sum(len(r) - len(set(r)) for r in x.tolist())


DIRECT_DT = {"subset": ("int64", "int32", "uint8", "int8"), "integer": ("int64", "int32", "uint8", "int8"), "binary": ("bool", "int8", "int64", "uint8"),
             "real": ("float64", "float32")}


def _run_direct(sc, g):
    """A configuration object built by hand, as user code that has its own decision vector does."""
    import importlib
    d = sc["direct"]
    pg, gm, bv, raw = _population(sc["world"])
    nt = pg.ntaxa
    R = random.Random(d["seed"])
    enc, mate = sc["enc"], d["mate"]
    nparent = 2 if mate else sc["nparent"]
    ncross = sc["ncross"]
    xmap = numpy.array([[i, j] for i in range(nt) for j in range(i + 1, nt)], dtype=int) if mate else None
    ncand = len(xmap) if mate else nt
    slots = ncross * (1 if mate else nparent)
    if enc == "subset":
        k = min(ncand, max(1, R.choice([slots, slots, max(1, slots // 2), R.randint(1, ncand)])))
        decn = numpy.array(R.sample(range(ncand), k))
    elif enc == "binary":
        decn = numpy.array([1 if R.random() < 0.5 else 0 for _ in range(ncand)])
        if decn.sum() == 0:
            decn[R.randrange(ncand)] = 1
    elif enc == "integer":
        decn = numpy.array([R.choice([0, 0, 1, 2, 5]) for _ in range(ncand)])
        if decn.sum() == 0:
            decn[R.randrange(ncand)] = 3
    else:
        decn = numpy.array([R.choice([0.0, 0.0, R.random(), 3.0 * R.random()]) for _ in range(ncand)])
        if decn.sum() == 0:
            decn[R.randrange(ncand)] = 1.0
    dt = d["dtype"] if d["dtype"] in DIRECT_DT[enc] else DIRECT_DT[enc][0]
    decn = decn.astype(dt)
    name = ENC[enc] + ("Mate" if mate else "") + "SelectionConfiguration"
    cls = getattr(importlib.import_module("pybrops.breed.prot.sel.cfg." + name), name)
    kw = dict(ncross=ncross, nparent=nparent, nmating=sc["nmating"], nprogeny=sc["nprogeny"], pgmat=pg, xconfig_decn=decn, rng=g)
    if mate:
        kw["xconfig_xmap"] = xmap
    cfg = cls(**kw)
    xc = cfg.sample_xconfig(return_xconfig=True)
    return pg, gm, bv, raw, cls, False, cfg, xc, {}


LAST_PROT = [None]          # the protocol object of the run in progress
# families whose selection with the exact optimiser is a deterministic function of the population
DETERMINISTIC = ("ebv", "gebv", "wgs", "gwgebv", "ohv", "uc", "opv", "pafd", "pau", "mogs", "gb", "febv")   # not: embv, random (simulation), ocs, mgr, meh (random jitter of the relationship matrix)


def _run(sc, g, perm=None):
    pg, gm, bv, raw = _population(sc["world"], perm)
    cls, kw, mo = _protocol(sc, g, sc["world"]["ntrait"])
    prot = cls(**kw)
    LAST_PROT[0] = prot
    misc = {}
    cfg = prot.select(pgmat=pg, gmat=pg, ptdf=None, bvmat=bv, gpmod=gm, t_cur=0, t_max=5, miscout=misc)
    xc = cfg.sample_xconfig(return_xconfig=True)
    return pg, gm, bv, raw, cls, mo, cfg, xc, misc


def execute(sc):
    V, log, faults, probes = [], [], {}, {}
    fam, enc = sc["fam"], sc["enc"]
    g = rngseam.make(sc["rng"]["kind"], sc["rng"]["seed"], sc["rng"]["script"])
    prng.seed(sc["seed"])
    cname = PREFIX[fam] + ENC[enc] + "Selection"
    C = cname + ".select"
    isdirect = bool(sc.get("direct"))
    npar_eff = 2 if (isdirect and sc["direct"]["mate"]) else sc["nparent"]
    if isdirect:
        faults["configuration_built_directly"] = 1
        fam = "direct"
        C = cname = "direct-configuration"
    try:
        pg, gm, bv, raw, cls, mo, cfg, xc, misc = _run_direct(sc, g) if isdirect else _run(sc, g)
    except Exception as e:
        ms = None
        if enc in ("binary", "integer", "real") and "broadcast" in str(e) or "sum" in str(e).lower() and "zero" in str(e).lower():
            # the optimiser returned an empty contribution vector: there is nothing to build crosses from
            probes["empty_solution_no_configuration"] = 1
            return _out(sc, V, log, faults, probes, False, g)
        V.append(viol("selection-completes", C, "raises:%s|%s" % (type(e).__name__, "mo" if sc["mo"] else "so"),
                      "%s (%s, ncross=%d, ntaxa=%d): %s: %s" % (cname, "multi-objective" if sc["mo"] else "single-objective", sc["ncross"], sc["world"]["ntaxa"], type(e).__name__, str(e)[:200])))
        return _out(sc, V, log, faults, probes, False, g)
    faults.update(g.fired)
    nt = pg.ntaxa
    decn = numpy.asarray(cfg.xconfig_decn)
    log.append([cname, adig(decn), adig(xc)])
    mate = hasattr(cfg, "xconfig_xmap") and getattr(cfg, "xconfig_xmap", None) is not None
    CC = type(cfg).__name__ + ".sample_xconfig"
    T = sc["ncross"] * (1 if mate else npar_eff)
    # ---- shape
    if not isinstance(xc, numpy.ndarray) or xc.shape != (sc["ncross"], npar_eff):
        V.append(viol("xconfig-shape", CC, "shape", "xconfig has shape %r, requested (%d, %d)" % (getattr(xc, "shape", None), sc["ncross"], npar_eff)))
        return _out(sc, V, log, faults, probes, True, g)
    # ---- membership and multiplicities
    if mate:
        xmap = numpy.asarray(cfg.xconfig_xmap)
        rows = [tuple(r) for r in xc.tolist()]
        if enc == "subset":
            allowed = {tuple(xmap[i].tolist()) for i in decn.tolist()}
            units = [tuple(xmap[i].tolist()) for i in decn.tolist()]
        else:
            allowed = {tuple(xmap[i].tolist()) for i in range(len(decn)) if decn[i] > 0}
            units = None
        if not set(rows) <= allowed:
            V.append(viol("xconfig-members", CC, "outside-solution", "crosses %s not among the candidate crosses chosen by the solution %s" % (sorted(set(rows) - allowed), sorted(allowed))))
            return _out(sc, V, log, faults, probes, True, g)
        up = sc.get("unique_parents", True)
        if not up:
            faults["self_crosses_allowed"] = 1
        # every candidate cross of the map must be selectable: the decision space of the solved problem covers the map
        for key_ in ("sosoln", "mosoln"):
            sol = misc.get(key_)
            if sol is not None and enc == "subset":
                ds = numpy.asarray(sol.decn_space)
                if ds.ndim == 1 and set(ds.tolist()) != set(range(len(xmap))):
                    V.append(viol("candidates-selectable", C, "decision-space-vs-cross-map", "the cross map holds %d candidate crosses but the decision space offered to the optimiser has %d entries (unique_parents=%s)" % (len(xmap), len(ds), up)))
                    return _out(sc, V, log, faults, probes, True, g)
        if fam in MATE and up and any(len(set(r)) != len(r) for r in rows):
            bad = [r for r in rows if len(set(r)) != len(r)][0]
            V.append(viol("unique-parents-respected", C, "self-pairing", "unique_parents=True but cross %s pairs an individual with itself (crosses %s)" % (list(bad), xc.tolist())))
            return _out(sc, V, log, faults, probes, True, g)
        if fam in MATE and up:
            allc = [tuple(sorted(r)) for r in numpy.asarray(cfg.xconfig_xmap).tolist()]
            if len(set(allc)) != len(allc):
                V.append(viol("unique-parents-respected", C, "duplicate-candidate-cross", "the candidate cross map lists the same set of parents more than once (%d candidates, %d distinct)" % (len(allc), len(set(allc)))))
                return _out(sc, V, log, faults, probes, True, g)
        if enc == "subset" and len(set(units)) == len(units):
            cnt = [rows.count(u) for u in units]
            if max(cnt) - min(cnt) > 1:
                V.append(viol("xconfig-multiplicities", CC, "subset-even", "chosen crosses used %s times (must differ by at most one)" % cnt))
                return _out(sc, V, log, faults, probes, True, g)
        if enc != "subset":
            allrows = [tuple(r) for r in xmap.tolist()]
            tot = float(numpy.sum(decn))
            if len(set(allrows)) == len(allrows) and tot > 0:
                share = numpy.asarray(decn, dtype=float) * sc["ncross"] / tot
                cnt = numpy.array([rows.count(r) for r in allrows], dtype=float)
                dev = numpy.abs(cnt - share)
                if numpy.any(dev > 1.0 + 1e-9):
                    i = int(numpy.argmax(dev))
                    V.append(viol("xconfig-multiplicities", CC, "proportional-share|mate-" + enc,
                                  "candidate cross %s used %d times, proportional share %.3f of %d crosses" % (list(allrows[i]), int(cnt[i]), float(share[i]), sc["ncross"])))
                    return _out(sc, V, log, faults, probes, True, g)
                probes["mate_share_checked"] = 1
    else:
        flat = xc.ravel().tolist()
        if any((not isinstance(v, (int, numpy.integer))) or v < 0 or v >= nt for v in flat):
            V.append(viol("xconfig-members", CC, "not-an-individual", "entries %s are not indices of the %d candidates" % (flat, nt)))
            return _out(sc, V, log, faults, probes, True, g)
        if enc == "subset":
            chosen = decn.tolist()
            share = None
        else:
            chosen = [i for i in range(len(decn)) if decn[i] > 0]
            share = numpy.asarray(decn, dtype=float) * T / float(numpy.sum(decn))
        if not set(flat) <= set(chosen):
            V.append(viol("xconfig-members", CC, "outside-solution", "individuals %s used in crosses but not contained in the solution %s" % (sorted(set(flat) - set(chosen)), decn.tolist())))
            return _out(sc, V, log, faults, probes, True, g)
        cnt = numpy.bincount(numpy.asarray(flat, dtype=int), minlength=nt)
        if enc == "subset":
            c = [int(cnt[i]) for i in chosen]
            if max(c) - min(c) > 1:
                V.append(viol("xconfig-multiplicities", CC, "subset-even", "chosen individuals used %s times (must differ by at most one)" % c))
                return _out(sc, V, log, faults, probes, True, g)
        else:
            dev = numpy.abs(cnt[:len(share)] - share)
            if numpy.any(dev > 1.0 + 1e-9):
                i = int(numpy.argmax(dev))
                V.append(viol("xconfig-multiplicities", CC, "proportional-share|" + enc,
                              "individual %d used %d times, proportional share %.3f (solution %s, %d slots)" % (i, int(cnt[i]), float(share[i]), decn.tolist(), T)))
                return _out(sc, V, log, faults, probes, True, g)
        # ---- no single exchange reduces self-pairings
        r0 = _repeats(xc)
        f = list(flat)
        npar = npar_eff
        for a in range(len(f)):
            for b in range(a + 1, len(f)):
                f[a], f[b] = f[b], f[a]
                t = [f[k * npar:(k + 1) * npar] for k in range(sc["ncross"])]
                f[a], f[b] = f[b], f[a]
                if sum(len(r) - len(set(r)) for r in t) < r0:
                    V.append(viol("xconfig-exchange-minimal", CC, "improving-exchange", "exchanging entries %d and %d of %s reduces self-pairings from %d" % (a, b, xc.tolist(), r0)))
                    return _out(sc, V, log, faults, probes, True, g)
    # ---- multi-objective: derived from the front member maximising the preference transformation
    if mo:
        ms = misc.get("mosoln")
        if ms is not None:
            # the set the preference is applied to has to be a non-dominated one (all objectives are minimised as reported)
            Fm = numpy.asarray(ms.soln_obj, dtype=float)
            for a_ in range(len(Fm)):
                for b_ in range(len(Fm)):
                    if a_ != b_ and numpy.all(Fm[a_] <= Fm[b_]) and numpy.any(Fm[a_] < Fm[b_]):
                        V.append(viol("preferred-front-member", C, "dominated-member-offered",
                                      "the solution set handed to the preference step contains %s, dominated by %s" % (Fm[b_].tolist(), Fm[a_].tolist())))
                        return _out(sc, V, log, faults, probes, True, g)
            nd = sc.get("ndset") or {"wt": 1.0, "kind": "negsum", "col": 0}
            score = nd["wt"] * _ndset(numpy.asarray(ms.soln_obj), kind=nd["kind"], col=nd["col"])
            if nd["wt"] != 1.0 or nd["kind"] != "negsum":
                faults["declared_preference_varied"] = 1
            if any(w != 1.0 for w in (sc.get("mo_wt") or [1.0])[:numpy.asarray(ms.soln_obj).shape[1]]):
                faults["objective_weights_varied"] = 1
            best = numpy.flatnonzero(score == score.max())
            ok = any(numpy.array_equal(numpy.asarray(ms.soln_decn[i]), decn) for i in best.tolist())
            if not ok:
                V.append(viol("preferred-front-member", C, "not-argmax", "configuration built from %s, but the front member maximising the preference transformation is %s" %
                              (decn.tolist(), numpy.asarray(ms.soln_decn[int(best[0])]).tolist())))
                return _out(sc, V, log, faults, probes, True, g)
            probes["mo_front_checked"] = 1
    # ---- a protocol object used again on another (larger) population chooses what a new protocol object chooses there
    if (not isdirect) and sc.get("reuse") and (not mo) and enc == "subset" and sc["exact"] and fam in DETERMINISTIC and LAST_PROT[0] is not None:
        w2 = dict(sc["world"], ntaxa=sc["world"]["ntaxa"] + 2, seed=sc["world"]["seed"] + 1)
        try:
            pg2, gm2, bv2, raw2 = _population(w2)
            again = LAST_PROT[0].select(pgmat=pg2, gmat=pg2, ptdf=None, bvmat=bv2, gpmod=gm2, t_cur=1, t_max=5, miscout={})
            cls2, kw2, _ = _protocol(sc, rngseam.make(sc["rng"]["kind"], sc["rng"]["seed"], sc["rng"]["script"]), sc["world"]["ntrait"])
            fresh = cls2(**kw2).select(pgmat=pg2, gmat=pg2, ptdf=None, bvmat=bv2, gpmod=gm2, t_cur=1, t_max=5, miscout={})
        except Exception as e:
            V.append(viol("selection-completes", C, "raises:%s|reused-protocol" % type(e).__name__, "second use of the protocol object on a population of %d: %s: %s" % (w2["ntaxa"], type(e).__name__, str(e)[:200])))
            return _out(sc, V, log, faults, probes, True, g)
        a_, f_ = numpy.sort(numpy.asarray(again.xconfig_decn)), numpy.sort(numpy.asarray(fresh.xconfig_decn))
        same_map = True
        if hasattr(again, "xconfig_xmap") and getattr(again, "xconfig_xmap", None) is not None:
            same_map = numpy.array_equal(numpy.asarray(again.xconfig_xmap), numpy.asarray(fresh.xconfig_xmap))
        if a_.shape != f_.shape or not numpy.array_equal(a_, f_) or not same_map:
            V.append(viol("truncation-picks-best", C, "reused-protocol", "used a second time on a population of %d taxa the protocol object chooses %s, a new protocol object chooses %s%s" %
                          (w2["ntaxa"], a_.tolist(), f_.tolist(), "" if same_map else " (candidate cross maps differ)")))
            return _out(sc, V, log, faults, probes, True, g)
        faults["protocol_object_reused"] = 1
    # ---- truncation with the exact optimiser picks exactly the best candidates; relabelling permutes the choice
    exact = (not mo) and enc == "subset" and sc["exact"] and fam in ("ebv", "gebv", "wgs", "gwgebv")
    if exact:
        if fam == "ebv":
            crit = numpy.asarray(raw, dtype=float).sum(1)          # the raw values the breeding-value matrix was built from
        elif fam == "gebv":
            # dosage x effects from the allele calls (the intercept is common to all candidates)
            crit = (numpy.asarray(pg.mat).astype(float).sum(0) @ numpy.asarray(gm.u_a, dtype=float)).sum(1)
        else:
            crit = _weighted_gebv(pg, gm, 0.5 if fam == "wgs" else sc.get("alpha", 0.5))
        k = len(decn)
        if float(sc.get("so_wt", 1.0)) < 0:
            crit = -crit                           # a negative objective weight declares the criterion as one to be minimised
            faults["criterion_minimised"] = 1
        srt = numpy.sort(crit)[::-1]
        if k < nt and abs(srt[k - 1] - srt[k]) < 1e-9:
            probes["criterion_tie_skipped"] = 1
        else:
            best = set(numpy.argsort(-crit)[:k].tolist())
            if set(decn.tolist()) != best:
                V.append(viol("truncation-picks-best", C, fam, "exact optimiser chose %s, the %d best by the criterion are %s" % (sorted(decn.tolist()), k, sorted(best))))
                return _out(sc, V, log, faults, probes, True, g)
            probes["truncation_checked"] = 1
            # twin run on the permuted and relabelled population
            perm = list(range(nt))
            random.Random(sc["perm"]).shuffle(perm)
            g2 = rngseam.make(sc["rng"]["kind"], sc["rng"]["seed"], sc["rng"]["script"])
            prng.seed(sc["seed"])
            try:
                pg2, gm2, bv2, raw2, _, _, cfg2, xc2, _ = _run(sc, g2, perm)
            except Exception as e:
                V.append(viol("selection-completes", C, "raises:%s|twin" % type(e).__name__, "twin run on the permuted population: %s: %s" % (type(e).__name__, e)))
                return _out(sc, V, log, faults, probes, True, g)
            faults["population_permuted_and_relabelled"] = 1
            mapped = {perm[i] for i in numpy.asarray(cfg2.xconfig_decn).tolist()}     # position i of the twin is original individual perm[i]
            if mapped != set(decn.tolist()):
                V.append(viol("choice-equivariant", C, fam, "original population: %s chosen; permuted/relabelled population chooses originals %s" % (sorted(decn.tolist()), sorted(mapped))))
                return _out(sc, V, log, faults, probes, True, g)
    return _out(sc, V, log, faults, probes, True, g)


def _out(sc, V, log, faults, probes, ran, g):
    trace = "%s|%s|mo=%s|exact=%s|x%d|p%d|u%d|%s" % (sc["fam"], sc["enc"], sc["mo"], sc["exact"], sc["ncross"], sc["nparent"], int(sc.get("unique_parents", True)), [r["mode"] for r in sc["rng"]["script"]])
    return {"violations": V, "log": log, "trace": trace, "nontrivial": ran, "faults": faults, "probes": probes, "sim": {"selections": 1 if ran else 0}}
