"""C10 — selection limits bound every attainable value and only ever tighten.

pybrops is itself a simulator of breeding programmes; here it is used as one.  A
closed programme is simulated for up to 8 generations with the real mating
protocols (driven by a simulator-owned generator: real draws, "crossover at every
permitted interval", "never cross over"), real concat/select operations, and
selection rules incl. the real GEBV truncation protocol, bottlenecks to a single
parent and doubled haploids.  Population sizes are biased to the sizes at which
1/(ploidy*n)*(ploidy*n) != 1.0 in floating point.

Invariants at every generation, from the raw allele calls by an independent
reference: limits bracket every GEBV of the generation and of all later ones;
upper limit never increases, lower never decreases; lost alleles never return;
at full fixation both limits equal the common GEBV.
"""
import copy
import random

import numpy

from .. import compat  # noqa: F401
from ..core import viol, adig
from .. import rngseam, world
from ..world import obj

from pybrops.popgen.gmat.DensePhasedGenotypeMatrix import DensePhasedGenotypeMatrix
from pybrops.popgen.gmat.DenseGenotypeMatrix import DenseGenotypeMatrix
from pybrops.breed.prot.mate.SelfCross import SelfCross
from pybrops.breed.prot.mate.TwoWayCross import TwoWayCross
from pybrops.breed.prot.mate.TwoWayDHCross import TwoWayDHCross
from pybrops.breed.prot.mate.ThreeWayCross import ThreeWayCross
from pybrops.breed.prot.mate.ThreeWayDHCross import ThreeWayDHCross
from pybrops.breed.prot.mate.FourWayCross import FourWayCross
from pybrops.breed.prot.mate.FourWayDHCross import FourWayDHCross
from pybrops.breed.prot.sel.GenomicEstimatedBreedingValueSelection import GenomicEstimatedBreedingValueSubsetSelection
from pybrops.opt.algo.SortingSubsetOptimizationAlgorithm import SortingSubsetOptimizationAlgorithm

PROP = "C10"
RUNS = {"quick": 40000, "thorough": 800000}
WALL = {"quick": 200, "thorough": 2400}
RUN_TIMEOUT = 120
RULE = ("scenario = founders (size biased to 1,2,3,7,48,49,50,98,103,107), 1-24 markers on 1-3 chromosomes, xoprob with exact 0 and 0.5, additive "
        "model with positive/negative/zero effects and non-zero intercept, 1-3 traits; up to 8 generations each = selection rule (random / "
        "truncation by reference / truncation through the real GEBV protocol / worst / single parent) + one of 7 mating protocols with drawn "
        "counts and selfing depth + replacement policy (replace / merge with parents / subsample / cull the same object in place / append progeny to the same object) + target size; generator script pass/low/high; "
        "distinct = (protocol sequence, rules, size classes, script); non-trivial = at least one generation produced progeny")
COMPONENTS = {"real": ["DenseAdditiveLinearGenomicModel.usl/lsl/gebv", "DensePhasedGenotypeMatrix (afreq, concat_taxa, select_taxa)", "DenseGenotypeMatrix (unphased view)",
                       "seven mating protocols", "GenomicEstimatedBreedingValueSubsetSelection + SortingSubsetOptimizationAlgorithm"],
              "stub": ["generator subclass (sim.rngseam)"]}
ASSUMPTIONS = ["gebv() includes the intercept: unscale=True limits are compared with gebv(pop).unscale(), unscale=False limits with the same values minus the intercept",
               "bracketing tolerance 4*eps*ploidy*sum|u|; monotonicity slack 2 ulp of that magnitude; fixation equality 4 ulp",
               "biallelic 0/1 calls; the simulated programme is diploid, a pooled tetraploid unphased view is checked at every generation"]

PROT = {"self": (SelfCross, 1), "2w": (TwoWayCross, 2), "2wdh": (TwoWayDHCross, 2), "3w": (ThreeWayCross, 3),
        "3wdh": (ThreeWayDHCross, 3), "4w": (FourWayCross, 4), "4wdh": (FourWayDHCross, 4)}
SIZES = [1, 2, 3, 7, 48, 49, 50, 98, 103, 107]
EPS = numpy.finfo(float).eps


def generate(R, tier):
    nv = R.choice([1, 2, 3, 4, 6, 8, 12, 24])
    nchr = R.randint(1, min(3, nv))
    gens = []
    for _ in range(R.randint(1, 8)):
        gens.append({"rule": R.choice(["random", "random", "top", "top_real", "worst", "single"]),
                     "nsel": R.randint(1, 6), "prot": R.choice(sorted(PROT)), "nself": R.choice([0, 0, 1, 2]),
                     "size": R.choice(SIZES) if R.random() < 0.6 else R.randint(1, 12),
                     "policy": R.choice(["replace", "replace", "merge", "subsample", "inplace-cull", "inplace-merge"]), "s": R.randrange(1 << 30),
                     "xcfg": R.random() < 0.6, "xcfg_n": R.choice([0, 0, 1, 2, 3, 5, 7, 11])})
    mode = R.choice(["pass", "pass", "pass", "low", "high"])
    if R.random() < 0.004:
        # a very large family next to single individuals: alleles carried by one individual in > 100 000
        gens[0].update(huge=R.choice([60000, 131072]), policy="replace", prot=R.choice(["2w", "2wdh", "self"]), nself=0)
        nv = R.choice([1, 2, 3])
        nchr = 1
    return {"world": {"seed": R.randrange(1 << 30), "ntaxa": R.choice(SIZES) if R.random() < 0.5 else R.randint(1, 10), "nvrnt": nv, "nchr": nchr,
                      "ntrait": R.randint(1, 3), "freq": R.choice([0.5, 0.5, 0.2, 0.9]), "nfixed": R.choice([1, 1, 2, 4])},
            "rng": {"kind": R.choice(["Generator", "RandomState"]), "seed": R.randrange(1 << 30), "umode": mode,
                    "script": [] if mode == "pass" else [{"method": "uniform", "mode": mode}]},
            "steps": gens}


def shrink(sc):
    w = sc["world"]
    for k, small in (("ntaxa", 1), ("nvrnt", 1), ("ntrait", 1), ("nchr", 1)):
        if w[k] > small:
            c = copy.deepcopy(sc)
            c["world"][k] = max(small, w[k] // 2) if w[k] > 3 else w[k] - 1
            c["world"]["nchr"] = min(c["world"]["nchr"], c["world"]["nvrnt"])
            yield c
            c = copy.deepcopy(sc)
            c["world"][k] = w[k] - 1
            c["world"]["nchr"] = min(c["world"]["nchr"], c["world"]["nvrnt"])
            yield c
    if sc["rng"]["script"]:
        c = copy.deepcopy(sc)
        c["rng"]["script"] = []
        c["rng"]["umode"] = "pass"
        yield c
    for i, g in enumerate(sc["steps"]):
        if g["nself"]:
            c = copy.deepcopy(sc)
            c["steps"][i]["nself"] = 0
            yield c
        if g["prot"] != "2w":
            c = copy.deepcopy(sc)
            c["steps"][i]["prot"] = "2w"
            yield c
        if g["policy"] != "replace":
            c = copy.deepcopy(sc)
            c["steps"][i]["policy"] = "replace"
            yield c
        if g["rule"] != "random":
            c = copy.deepcopy(sc)
            c["steps"][i]["rule"] = "random"
            yield c
        if g["size"] > 1:
            c = copy.deepcopy(sc)
            c["steps"][i]["size"] = g["size"] - 1
            yield c


def _founders(w):
    R = random.Random(w["seed"])
    nt, nv = w["ntaxa"], w["nvrnt"]
    mat = numpy.array([[[1 if R.random() < w["freq"] else 0 for _ in range(nv)] for _ in range(nt)] for _ in range(2)], dtype="int8")
    chrgrp, _ = world.chrom_layout(R, nv, w["nchr"])
    xo = world.xoprob_for(R, chrgrp)
    pg = DensePhasedGenotypeMatrix(mat, taxa=obj(["f%d" % i for i in range(nt)]), taxa_grp=numpy.zeros(nt, dtype=int),
                                   vrnt_chrgrp=chrgrp, vrnt_phypos=numpy.arange(nv) + 1, vrnt_name=obj(["m%d" % i for i in range(nv)]),
                                   vrnt_genpos=numpy.arange(nv) * 0.1, vrnt_xoprob=xo)
    pg.group_vrnt()
    gm = world.algmod(R, nv, w["ntrait"], nfixed=w.get("nfixed", 1))
    return pg, gm


def _reference(mat, u):
    """Independent limits and GEBVs from raw allele calls (mat: (2,n,p) of 0/1) and effects u: (p,t)."""
    n = mat.shape[1]
    cnt = mat.astype(numpy.int64).sum((0, 1))
    has1 = cnt > 0
    has0 = cnt < 2 * n
    dos = mat.astype(numpy.int64).sum(0)                # (n,p)
    gebv = dos.astype(float) @ u                        # (n,t)
    return cnt, has0, has1, gebv


def execute(sc):
    pg, gm = _founders(sc["world"])
    u = numpy.array(gm.u_a, dtype=float)
    g = rngseam.make(sc["rng"]["kind"], sc["rng"]["seed"], sc["rng"]["script"])
    prots = {}
    V, log, faults, probes = [], [], {}, {}
    mag = 2.0 * numpy.abs(u).sum(0) + 1e-300              # (t,)
    q = gm.beta.shape[0]
    loc = numpy.array(gm.beta[0] + (gm.beta[1:].sum(0) / q if q > 1 else 0.0), dtype=float)     # mean of the fixed effects
    tolb = 4 * EPS * mag
    history = []                                          # per generation: dict(usl, lsl, has0, has1, n, gmax, gmin)
    pop = pg
    ngen = 0
    kinds = []

    def observe(pop, ix):
        C = "DenseAdditiveLinearGenomicModel"
        mat = numpy.asarray(pop.mat)
        n = mat.shape[1]
        cnt, has0, has1, gref = _reference(mat, u)
        try:
            usl = numpy.array(gm.usl(pop), dtype=float)
            lsl = numpy.array(gm.lsl(pop), dtype=float)
            usl_t = numpy.array(gm.usl(pop, unscale=True), dtype=float)
            lsl_t = numpy.array(gm.lsl(pop, unscale=True), dtype=float)
            gebv = numpy.array(gm.gebv(pop).unscale(), dtype=float)
        except Exception as e:
            V.append(viol("limits-computable", C + ".usl/lsl/gebv", "raises:%s" % type(e).__name__, "generation %d (n=%d): %s: %s" % (ix, n, type(e).__name__, e), step=ix))
            return None
        # a value that is not a number brackets nothing and is bracketed by nothing
        for nm_, arr_ in (("usl", usl), ("lsl", lsl), ("usl(unscale=True)", usl_t), ("lsl(unscale=True)", lsl_t), ("gebv", gebv)):
            if not numpy.all(numpy.isfinite(arr_)):
                V.append(viol("limits-computable", C + ".usl/lsl/gebv", "non-finite:" + nm_.split("(")[0], "generation %d (n=%d): %s contains non-finite values %s" % (ix, n, nm_, numpy.asarray(arr_).ravel()[:6].tolist()), step=ix))
                return None
        # gebv() reports dosage @ u_a plus the intercept (mean of the fixed effects): like is compared with like,
        # unscale=True limits against gebv().unscale(), unscale=False limits against the same values minus the intercept
        gref_t = gref + loc[None, :]
        if gebv.shape != gref.shape or numpy.any(numpy.abs(gebv - gref_t) > tolb[None, :] * 4 + 16 * EPS * (numpy.abs(gref_t) + numpy.abs(loc)[None, :])):
            V.append(viol("gebv-is-dosage-times-effects", C + ".gebv", "values", "generation %d: gebv().unscale() differs from intercept + dosage @ u_a" % ix, step=ix))
            return None
        tolt = tolb + 8 * EPS * numpy.abs(loc)
        gmax_t, gmin_t = gebv.max(0), gebv.min(0)
        if numpy.any(gmax_t > usl_t + tolt) or numpy.any(gmin_t < lsl_t - tolt):
            t = int(numpy.argmax((gmax_t > usl_t + tolt) | (gmin_t < lsl_t - tolt)))
            V.append(viol("limits-bracket-population", C + ".usl/lsl", "own-generation|unscale=True", "generation %d (n=%d) trait %d: limits [%r, %r] do not bracket GEBVs [%r, %r]" %
                          (ix, n, t, float(lsl_t[t]), float(usl_t[t]), float(gmin_t[t]), float(gmax_t[t])), step=ix))
            return None
        gebv = gref                      # values without the intercept, for the unscale=False limits
        gmax, gmin = gebv.max(0), gebv.min(0)
        if numpy.any(gmax > usl + tolb) or numpy.any(gmin < lsl - tolb):
            t = int(numpy.argmax((gmax > usl + tolb) | (gmin < lsl - tolb)))
            V.append(viol("limits-bracket-population", C + ".usl/lsl", "own-generation", "generation %d (n=%d) trait %d: limits [%r, %r] do not bracket GEBVs [%r, %r]" %
                          (ix, n, t, float(lsl[t]), float(usl[t]), float(gmin[t]), float(gmax[t])), step=ix))
            return None
        # the intercept shifts both limits by the same constant
        d1, d2 = usl_t - usl, lsl_t - lsl
        if numpy.any(numpy.abs(d1 - d2) > 8 * EPS * (numpy.abs(usl_t) + numpy.abs(lsl_t) + mag)):
            V.append(viol("intercept-shifts-both-limits", C + ".usl/lsl", "unscale", "generation %d: unscale=True moves usl by %s and lsl by %s" % (ix, d1.tolist(), d2.tolist()), step=ix))
            return None
        if numpy.any(numpy.abs(d1 - loc) > 8 * EPS * (numpy.abs(usl_t) + numpy.abs(gm.beta).sum(0) + mag)):
            V.append(viol("intercept-shifts-both-limits", C + ".usl/lsl", "unscale-not-intercept", "generation %d: unscale=True moves the limits by %s, the mean of the %d fixed effects is %s" % (ix, d1.tolist(), gm.beta.shape[0], loc.tolist()), step=ix))
            return None
        # unphased view gives the same limits
        try:
            def _unphased(pl):
                return DenseGenotypeMatrix(mat.sum(0, dtype="int8"), taxa=pop.taxa, taxa_grp=pop.taxa_grp, vrnt_chrgrp=pop.vrnt_chrgrp, vrnt_phypos=pop.vrnt_phypos, ploidy=pl)
            # the ploidy may be handed over as a NumPy integer scalar; a class that refuses it is given a Python int
            try:
                um = _unphased(numpy.int8(2) if ix % 2 else numpy.int64(2))
                faults["numpy_scalar_ploidy_accepted"] = faults.get("numpy_scalar_ploidy_accepted", 0) + 1
            except TypeError:
                um = _unphased(2)
            usl_u, lsl_u = numpy.array(gm.usl(um), dtype=float), numpy.array(gm.lsl(um), dtype=float)
            usl_a = numpy.array(gm.usl(mat.sum(0).astype(float)), dtype=float)
            if numpy.any(usl_u != usl) or numpy.any(lsl_u != lsl) or numpy.any(~(numpy.abs(usl_a - usl) <= tolb)):
                V.append(viol("limits-independent-of-input-form", C + ".usl/lsl", "phased-vs-unphased", "generation %d (n=%d): phased %s/%s, unphased %s/%s, dosage array usl %s" %
                              (ix, n, usl.tolist(), lsl.tolist(), usl_u.tolist(), lsl_u.tolist(), usl_a.tolist()), step=ix))
                return None
        except Exception:
            pass
        # a tetraploid unphased view (pairs of individuals pooled: calls 0..4, ploidy 4) and the same population after
        # select_taxa of all its members: limits bracket its values and do not depend on how the population object was made
        if n >= 2:
            try:
                half = n // 2
                d4 = (mat[:, :half, :].astype(int).sum(0) + mat[:, half:2 * half, :].astype(int).sum(0)).astype("int8")
                t4 = DenseGenotypeMatrix(d4, taxa=obj(["q%d" % i for i in range(half)]), taxa_grp=numpy.zeros(half, dtype=int), vrnt_chrgrp=pop.vrnt_chrgrp, vrnt_phypos=pop.vrnt_phypos, ploidy=4)
                perm = list(range(half))[::-1]
                s4 = t4.select_taxa(perm)
                u4, l4 = numpy.array(gm.usl(t4), dtype=float), numpy.array(gm.lsl(t4), dtype=float)
                us, ls = numpy.array(gm.usl(s4), dtype=float), numpy.array(gm.lsl(s4), dtype=float)
                g4 = d4.astype(float) @ u
                tol4 = 2 * tolb
                if numpy.any(~(g4.max(0) <= u4 + tol4)) or numpy.any(~(g4.min(0) >= l4 - tol4)) or numpy.any(~(numpy.abs(us - u4) <= tol4)) or numpy.any(~(numpy.abs(ls - l4) <= tol4)):
                    V.append(viol("limits-bracket-population", C + ".usl/lsl", "tetraploid-unphased", "generation %d: tetraploid view of %d taxa: values [%s, %s], limits [%s, %s], after select_taxa [%s, %s]" %
                                  (ix, half, g4.min(0).tolist(), g4.max(0).tolist(), l4.tolist(), u4.tolist(), ls.tolist(), us.tolist()), step=ix))
                    return None
                probes["tetraploid_view_checked"] = probes.get("tetraploid_view_checked", 0) + 1
                # the same pooled population as a phased matrix with four chromosome copies per individual
                m4 = numpy.concatenate([mat[:, :half, :], mat[:, half:2 * half, :]], axis=0)
                p4 = type(pop)(m4, taxa=obj(["q%d" % i for i in range(half)]), taxa_grp=numpy.zeros(half, dtype=int), vrnt_chrgrp=pop.vrnt_chrgrp,
                               vrnt_phypos=pop.vrnt_phypos, vrnt_xoprob=pop.vrnt_xoprob, ploidy=4)
                up, lp = numpy.array(gm.usl(p4), dtype=float), numpy.array(gm.lsl(p4), dtype=float)
                gp = numpy.array(gm.gebv(p4).unscale(), dtype=float) - loc[None, :]
                if (gp.shape != g4.shape or numpy.any(~(numpy.abs(gp - g4) <= tol4[None, :] + 16 * EPS * numpy.abs(loc)[None, :])) or numpy.any(~(numpy.abs(up - u4) <= tol4))
                        or numpy.any(~(numpy.abs(lp - l4) <= tol4))):
                    V.append(viol("limits-independent-of-input-form", C + ".usl/lsl", "tetraploid-phased-vs-unphased",
                                  "generation %d: four-copy phased view of %d taxa: GEBVs %s vs dosage x effects %s; limits [%s, %s] vs unphased [%s, %s]" %
                                  (ix, half, gp.tolist()[:3], g4.tolist()[:3], lp.tolist(), up.tolist(), l4.tolist(), u4.tolist()), step=ix))
                    return None
            except Exception as e:
                V.append(viol("limits-computable", C + ".usl/lsl", "tetraploid-unphased|raises:%s" % type(e).__name__, "generation %d: %s: %s" % (ix, type(e).__name__, e), step=ix))
                return None
        rec = {"usl": usl, "lsl": lsl, "has0": has0, "has1": has1, "n": n, "gmax": gmax, "gmin": gmin}
        fixed = not numpy.any(has0 & has1)
        if fixed:
            probes["population_fixed_at_all_loci"] = probes.get("population_fixed_at_all_loci", 0) + 1
            common = gebv[0]
            slack = 4 * EPS * (numpy.abs(common) + mag)
            if numpy.any(numpy.abs(usl - common) > slack) or numpy.any(numpy.abs(lsl - common) > slack):
                V.append(viol("limits-collapse-at-fixation", C + ".usl/lsl", "n=%d" % n if n in (49, 98, 103, 107) else "n=other",
                              "generation %d: population of %d fixed at every locus with GEBV %s but usl=%s lsl=%s" % (ix, n, common.tolist(), usl.tolist(), lsl.tolist()), step=ix))
                return None
        if n in (49, 98, 103, 107):
            probes["reciprocal_rounding_size"] = probes.get("reciprocal_rounding_size", 0) + 1
        # history clauses
        if history:
            p = history[-1]
            if numpy.any(has0 & ~p["has0"]) or numpy.any(has1 & ~p["has1"]):
                j = int(numpy.argmax((has0 & ~p["has0"]) | (has1 & ~p["has1"])))
                V.append(viol("lost-allele-never-returns", "mating/%s" % sc["steps"][ix - 1]["prot"] if ix > 0 else "mating", "allele-reappeared",
                              "generation %d: an allele absent from generation %d is present again at locus %d" % (ix, ix - 1, j), step=ix))
                return None
            slack = 2 * EPS * mag
            if numpy.any(usl > p["usl"] + slack) or numpy.any(lsl < p["lsl"] - slack):
                t = int(numpy.argmax((usl > p["usl"] + slack) | (lsl < p["lsl"] - slack)))
                V.append(viol("limits-only-tighten", C + ".usl/lsl", "sizes=%s" % ("rounding" if (n in (49, 98, 103, 107) or p["n"] in (49, 98, 103, 107)) else "other"),
                              "generation %d -> %d (n %d -> %d) trait %d: usl %r -> %r, lsl %r -> %r" % (ix - 1, ix, p["n"], n, t, float(p["usl"][t]), float(usl[t]), float(p["lsl"][t]), float(lsl[t])), step=ix))
                return None
            for k, q in enumerate(history):
                if numpy.any(gmax > q["usl"] + tolb) or numpy.any(gmin < q["lsl"] - tolb):
                    V.append(viol("limits-bracket-descendants", C + ".usl/lsl", "later-generation", "generation %d has GEBVs outside the limits reported at generation %d" % (ix, k), step=ix))
                    return None
        history.append(rec)
        log.append([ix, n, adig(mat), usl.tolist(), lsl.tolist()])
        return rec

    if observe(pop, 0) is None:
        return _out(sc, V, log, kinds, faults, probes, ngen, g)
    for ix, st in enumerate(sc["steps"], start=1):
        R = random.Random(st["s"])
        n = pop.ntaxa
        if n == 0:
            break
        cls, npar = PROT[st["prot"]]
        cfg_obj = None
        # ---- selection
        nsel = max(1, min(st["nsel"], n))
        gv = numpy.asarray(pop.mat).astype(float).sum(0) @ u[:, 0]
        rule = st["rule"]
        if rule == "random":
            sel = R.sample(range(n), nsel)
        elif rule == "top":
            sel = numpy.argsort(-gv, kind="stable")[:nsel].tolist()
        elif rule == "worst":
            sel = numpy.argsort(gv, kind="stable")[:nsel].tolist()
        elif rule == "single":
            sel = [R.randrange(n)]
            faults["bottleneck_single_parent"] = faults.get("bottleneck_single_parent", 0) + 1
        else:
            k = max(1, nsel // 2)
            if 2 * k > n or n > 60:
                sel = numpy.argsort(-gv, kind="stable")[:nsel].tolist()
            else:
                try:
                    prot = GenomicEstimatedBreedingValueSubsetSelection(
                        ntrait=u.shape[1], unscale=True, ncross=k, nparent=2, nmating=1, nprogeny=1, nobj=1, obj_wt=numpy.array([1.0]),
                        obj_trans=lambda x, latent, **kw: latent[:1], rng=g, soalgo=SortingSubsetOptimizationAlgorithm())
                    cfg = prot.select(pgmat=pop, gmat=pop, ptdf=None, bvmat=None, gpmod=gm, t_cur=ix, t_max=9)
                    cfg_obj = cfg
                    sel = [int(v) for v in numpy.asarray(cfg.xconfig_decn).tolist()]
                    faults["selection_through_real_protocol"] = faults.get("selection_through_real_protocol", 0) + 1
                except Exception as e:
                    V.append(viol("selection-protocol-completes", "GenomicEstimatedBreedingValueSubsetSelection.select", "raises:%s" % type(e).__name__, "generation %d: %s" % (ix, e), step=ix))
                    break
        if st["policy"] == "inplace-cull":
            # selection alone is a step of a closed history: the same population object is culled in place to the
            # selected individuals and asked for its limits again
            drop = sorted(set(range(n)) - set(int(v) for v in sel))
            if not drop:
                continue
            try:
                pop.remove_taxa(numpy.array(drop, dtype=int))
            except Exception as e:
                V.append(viol("population-update-completes", "DensePhasedGenotypeMatrix.remove_taxa", "raises:%s" % type(e).__name__, "generation %d: %s: %s" % (ix, type(e).__name__, e), step=ix))
                break
            faults["population_object_modified_in_place"] = faults.get("population_object_modified_in_place", 0) + 1
            kinds.append("%s/-/inplace-cull/s" % rule)
            ngen += 1
            if observe(pop, ix) is None:
                break
            continue
        # ---- crosses: the target size decides the number of crosses
        target = st["size"]
        ncross = max(1, target)
        xc = numpy.array([[sel[R.randrange(len(sel))] for _ in range(npar)] for _ in range(ncross)], dtype=int)
        policy = st["policy"]
        if cfg_obj is not None and npar == 2 and st.get("xcfg") and policy != "inplace-cull":
            # the selected parents are a population of their own: its limits are recorded, and the crosses are the ones
            # the protocol's own configuration samples; the progeny alone form the next generation
            try:
                sub = pop.select_taxa(numpy.array(sorted(set(sel)), dtype=int))
                if st.get("xcfg_n"):
                    # the same chosen parents, another number of crosses (slots need not be a multiple of the parents chosen)
                    from pybrops.breed.prot.sel.cfg.SubsetSelectionConfiguration import SubsetSelectionConfiguration
                    cfg_obj = SubsetSelectionConfiguration(ncross=int(st["xcfg_n"]), nparent=2, nmating=1, nprogeny=1, pgmat=pop,
                                                           xconfig_decn=numpy.asarray(cfg_obj.xconfig_decn), rng=g)
                xc = numpy.asarray(cfg_obj.sample_xconfig(return_xconfig=True), dtype=int)
            except Exception as e:
                V.append(viol("selection-protocol-completes", "SubsetSelectionConfiguration.sample_xconfig", "raises:%s" % type(e).__name__, "generation %d: %s" % (ix, e), step=ix))
                break
            if observe(sub, ix) is None:
                break
            policy = "replace"
            faults["crosses_sampled_by_the_protocol"] = faults.get("crosses_sampled_by_the_protocol", 0) + 1
        mp = prots.get(st["prot"])
        if mp is None:
            mp = prots[st["prot"]] = cls(progeny_counter=0, family_counter=0, rng=g)
        nprog = 1
        if st.get("huge"):
            xc = xc[:min(len(xc), 3)]
            if len(xc) < 2:
                xc = numpy.concatenate([xc, xc], axis=0)
            nprog = numpy.array([int(st["huge"])] + [1] * (len(xc) - 1), dtype=int)
            faults["one_family_of_more_than_50000"] = faults.get("one_family_of_more_than_50000", 0) + 1
        try:
            prog = mp.mate(pop, xc, 1, nprog, nself=st["nself"])
        except Exception as e:
            V.append(viol("mating-completes", cls.__name__ + ".mate", "raises:%s" % type(e).__name__, "generation %d: %s: %s" % (ix, type(e).__name__, e), step=ix))
            break
        kinds.append("%s/%s/%s/%s" % (rule, st["prot"], st["policy"], "R" if target in (49, 98, 103, 107) else ("L" if target > 12 else "s")))
        # ---- replacement policy
        try:
            if policy == "inplace-merge" and n + prog.ntaxa <= 130:
                # progeny join their parents in the same population object
                pop.append_taxa(numpy.asarray(prog.mat), taxa=prog.taxa, taxa_grp=prog.taxa_grp)
                newpop = pop
                faults["population_object_modified_in_place"] = faults.get("population_object_modified_in_place", 0) + 1
            elif policy == "merge" and n + prog.ntaxa <= 130:
                newpop = DensePhasedGenotypeMatrix.concat_taxa([pop, prog])
                newpop.vrnt_xoprob = pop.vrnt_xoprob if newpop.vrnt_xoprob is None else newpop.vrnt_xoprob
            elif policy == "subsample" and prog.ntaxa > 1:
                keep = sorted(R.sample(range(prog.ntaxa), max(1, prog.ntaxa - R.randint(0, min(3, prog.ntaxa - 1)))))
                newpop = prog.select_taxa(keep)
            else:
                newpop = prog
            if newpop.vrnt_xoprob is None:
                newpop.vrnt_xoprob = pop.vrnt_xoprob
            if not newpop.is_grouped_vrnt():
                newpop.group_vrnt()
        except Exception as e:
            V.append(viol("population-update-completes", "DensePhasedGenotypeMatrix.%s" % ("concat_taxa" if policy == "merge" else "select_taxa"), "raises:%s" % type(e).__name__,
                          "generation %d: %s: %s" % (ix, type(e).__name__, e), step=ix))
            break
        pop = newpop
        ngen += 1
        if observe(pop, ix) is None:
            break
    return _out(sc, V, log, kinds, faults, probes, ngen, g)


def _out(sc, V, log, kinds, faults, probes, ngen, g):
    f = dict(faults)
    f.update(g.fired)
    trace = "%s|%s|n0=%s" % (kinds, sc["rng"]["umode"], "R" if sc["world"]["ntaxa"] in (49, 98, 103, 107) else sc["world"]["ntaxa"] > 12)
    return {"violations": V, "log": log, "trace": trace, "nontrivial": ngen > 0, "faults": f, "probes": probes,
            "sim": {"generations": ngen, "meiosis_batches": g.count.get("uniform", 0)}}
