"""C08 — seeded runs are reproducible and explicit generators are isolated.

Clause A (global seed).  A *program* = a sequence of stochastic API calls from the
catalogue, all using the library's global generator.  It is executed after
``prng.seed(s)`` in up to four simulated histories of one interpreter:
  X : prefix history H1, entropy/clock world W1
  Y1: prefix history H2 (different unseeded draws and seeds before), world W1
  Y2: prefix history H1, world W2 (other OS entropy bytes, clock 1e9 s away)
  Z : (thorough tier, sampled) a fresh interpreter with another PYTHONHASHSEED
Every step's output digest and the final (random, numpy.random) states must agree.

Clause B (isolation).  A component that accepts ``rng`` is run with
SimGenerator(k); the two global streams must be bit-identical before and after;
then the globals are perturbed, the entropy world switched, and a second run
with a fresh SimGenerator(k) must give the same output.
"""
import copy
import hashlib
import json
import os
import random
import subprocess
import sys

import numpy

from .. import compat  # noqa: F401
from ..core import viol, adig, VERIF
from .. import entropy, rngseam, catalog

from pybrops.core.random import prng

PROP = "C08"
RUNS = {"quick": 12000, "thorough": 120000}
WALL = {"quick": 200, "thorough": 2400}
RUN_TIMEOUT = 120
RULE = ("scenario = clause A: program of 1-8 catalogue calls (prng wrappers, spawn, 7 mating protocols, phenotyping, 8 selection "
        "configurations, 4 sampling utilities, 13 pymoo optimisers, hill-climber, EMBV, random-selection problem, jitter, selection "
        "protocols) run after prng.seed(s) under two prefix histories (light calls plus components related to the program: same call, sibling, any catalogue entry) and two entropy/clock worlds (plus a fresh interpreter in the "
        "thorough tier); clause B: one rng-accepting component run twice with a fresh SimGenerator(k) around a perturbation of the "
        "globals, an optional history of related components on the global generator and an entropy-world switch; distinct = (clause, multiset of call names, generator kind); non-trivial = program "
        "contains a call that consumed randomness")
COMPONENTS = {"real": ["pybrops.core.random.prng (seed, spawn, wrappers)", "all catalogue components (sim/catalog.py) incl. pymoo 0.6.2"],
              "stub": ["OS entropy (os.urandom, random._urandom, numpy bit_generator.randbits) and wall clocks replaced by deterministic worlds",
                       "generator subclasses for clause B"]}
ASSUMPTIONS = ["seed(None) is excluded (documented as nondeterministic)",
               "'whatever was executed before' is modelled by prefix histories of unseeded stochastic calls and reseeding, by a different entropy world and clock, and (thorough) by a fresh interpreter",
               "output equality is bit-for-bit on every array the call returns"]

HEAVY = [k for k, v in catalog.CAT.items() if v["heavy"]]
LIGHT = [k for k, v in catalog.CAT.items() if not v["heavy"]]
GLOBAL_OK = [k for k, v in catalog.CAT.items() if v["global"]]
RNG_OK = [k for k, v in catalog.CAT.items() if v["has_rng"]]


def _par(R, name):
    par = {"s": R.randrange(1000)}
    if name.startswith("mate."):
        par.update(ncross=R.randint(1, 3), nmating=R.randint(1, 2), nprogeny=R.randint(1, 2), nself=R.choice([0, 0, 1]))
    if name in HEAVY:
        par.update(ngen=R.randint(1, 3), pop=R.choice([4, 6, 8]))
    if name == "embv":
        par["per_taxon"] = R.random() < 0.5
    if name.startswith("legacy."):
        par["wt"] = R.choice([1.0, -1.0])
    if name == "prng.spawn":
        par["n"] = R.choice([None, 1, 2, 3])
    if name.startswith("sampling."):
        par.update(k=R.randint(1, 9), replace=R.random() < 0.3)
    return par


def _related(R, names):
    """A catalogue call for a prior history: the same component as one of `names` (other parameters),
    a sibling from the same family, or any entry that runs on the global generator."""
    r = R.random()
    pick = None
    if names and r < 0.35:
        pick = R.choice(names)
    elif names and r < 0.8:
        fam = R.choice(names).split(".")[0]
        sib = [k for k in GLOBAL_OK if k.split(".")[0] == fam]
        pick = R.choice(sib) if sib else None
    if pick is None or pick not in GLOBAL_OK:
        pick = R.choice(GLOBAL_OK)
    return {"call": pick, "par": _par(R, pick)}


def generate(R, tier):
    clause = "A" if R.random() < 0.6 else "B"
    w = {"seed": R.randrange(1 << 30), "ntaxa": R.randint(4, 8), "nvrnt": R.randint(4, 12)}
    sc = {"clause": clause, "world": w, "seed": R.choice([0, 1, 42, R.randrange(1 << 31), 2 ** 32 - 1]),
          "worlds": [R.randrange(1000), 1000 + R.randrange(1000)]}
    if clause == "A":
        n = R.randint(1, 8)
        steps = []
        for _ in range(n):
            name = R.choice(HEAVY) if R.random() < 0.25 else R.choice(LIGHT)
            if name not in GLOBAL_OK:
                name = R.choice(GLOBAL_OK)
            steps.append({"call": name, "par": _par(R, name)})
        sc["persist"] = [R.choice(sorted(catalog.PERSIST)) for _ in range(R.choice([0, 0, 1, 2]))]
        # in one of the two histories a pre-existing object may already have been used before the re-seeding
        sc["preuse"] = [[], []]
        for j, nm in enumerate(sc["persist"]):
            if nm in catalog.PREUSE_OK and R.random() < 0.5:
                sc["preuse"][R.randrange(2)].append(j)
        for j, nm in enumerate(sc["persist"]):
            steps.insert(R.randint(0, len(steps)), {"call": "use", "obj": j, "par": {}})
        sc["steps"] = steps
        sc["prefix"] = [[R.choice(["prng.random", "py.random", "prng.normal", "prng.shuffle", "reseed", "sampling.sus", "mate.2w"]) for _ in range(R.randint(0, 3))]
                        for _h in range(2)]
        if R.random() < 0.4:
            # hidden state is usually shared between related components: one of the two histories also ran a
            # component of the program itself, a sibling of one (same family) or any other catalogue entry
            h = R.randrange(2)
            for _ in range(R.randint(1, 2)):
                sc["prefix"][h] = sc["prefix"][h] + [_related(R, [st["call"] for st in steps if st["call"] != "use"])]
        if sc["prefix"][0] == sc["prefix"][1]:
            sc["prefix"][1] = sc["prefix"][1] + ["prng.random"]
        sc["fresh"] = (tier == "thorough" and R.random() < 0.01)
    else:
        name = R.choice(RNG_OK)
        sc["steps"] = [{"call": name, "par": _par(R, name)}]
        sc["kind"] = R.choice(["Generator", "Generator", "RandomState"])
        sc["k"] = R.randrange(1 << 30)
        # history between the two runs: related components executed on the global generator
        sc["between"] = [_related(R, [name]) for _ in range(R.choice([0, 0, 1, 2]))]
    return sc


def shrink(sc):
    for i, st in enumerate(sc["steps"]):
        for key, small in (("ngen", 1), ("pop", 4), ("ncross", 1), ("nself", 0), ("nmating", 1), ("nprogeny", 1)):
            if st["par"].get(key, small) != small and isinstance(st["par"].get(key), int) and st["par"][key] > small:
                c = copy.deepcopy(sc)
                c["steps"][i]["par"][key] = small
                yield c
    if sc["clause"] == "A":
        if sc.get("persist") and not any(st["call"] == "use" for st in sc["steps"]):
            c = copy.deepcopy(sc)
            c["persist"] = []
            yield c
        if any(sc["prefix"]):
            c = copy.deepcopy(sc)
            c["prefix"] = [[], ["prng.random"]]
            yield c
        if any(sc.get("preuse") or []):
            c = copy.deepcopy(sc)
            c["preuse"] = [[], []]
            yield c
        if sc.get("fresh"):
            c = copy.deepcopy(sc)
            c["fresh"] = False
            yield c
    if sc["clause"] == "A":
        for h in range(2):
            for j in range(len(sc["prefix"][h])):
                c = copy.deepcopy(sc)
                del c["prefix"][h][j]
                if c["prefix"][0] != c["prefix"][1]:
                    yield c
    if sc.get("between"):
        for j in range(len(sc["between"])):
            c = copy.deepcopy(sc)
            del c["between"][j]
            yield c
    if sc["world"]["ntaxa"] > 4:
        c = copy.deepcopy(sc)
        c["world"]["ntaxa"] -= 1
        yield c
    if sc["world"]["nvrnt"] > 4:
        c = copy.deepcopy(sc)
        c["world"]["nvrnt"] -= 1
        yield c


def _odig(outs):
    return [adig(numpy.asarray(o)) for o in outs]


def _run_prefix(ctx, names):
    for n in names:
        if n == "reseed":
            prng.seed(987654321)
        elif isinstance(n, dict):
            try:
                catalog.CAT[n["call"]]["fn"](ctx, None, n["par"])
            except Exception:
                pass
        else:
            catalog.CAT[n]["fn"](ctx, None, {})


def run_program(sc, prefix, wnum, hist=0):
    """One execution: prefix history, seed, program.  Returns (step digests, final state digest, entropy reads)."""
    with entropy.active(entropy.World(wnum)) as W:
        ctx = catalog.Ctx(sc["world"])
        try:
            _run_prefix(ctx, prefix)
        except Exception:
            pass
        # objects that exist before the re-seeding and are used after it
        pobjs = []
        for nm in sc.get("persist", []):
            try:
                pobjs.append(catalog.PERSIST[nm](catalog.Ctx(sc["world"])))
            except Exception as e:
                pobjs.append(e)
        for j in (sc.get("preuse") or [[], []])[hist]:
            # this history already used the object (on the unseeded global generator)
            try:
                if j < len(pobjs) and not isinstance(pobjs[j], Exception):
                    pobjs[j][1](catalog.Ctx(sc["world"]), pobjs[j][0])
            except Exception:
                pass
        prng.seed(sc["seed"])
        e0 = W.entropy_reads
        digs = []
        for st in sc["steps"]:
            ctx = catalog.Ctx(sc["world"])
            try:
                if st["call"] == "use":
                    po = pobjs[st["obj"]] if st["obj"] < len(pobjs) else None
                    if po is None or isinstance(po, Exception):
                        raise RuntimeError("persistent object unavailable")
                    out = po[1](ctx, po[0])
                else:
                    out = catalog.CAT[st["call"]]["fn"](ctx, None, st["par"])
                digs.append([_odig(out), rngseam.global_state_digest()])
            except Exception as e:
                digs.append([["EXC", type(e).__name__, str(e)[:120]], rngseam.global_state_digest()])
        return digs, rngseam.global_state_digest(), W.entropy_reads - e0


def _first_diff(a, b):
    for i, (x, y) in enumerate(zip(a, b)):
        if x != y:
            return i
    return None


def _exec_A(sc):
    V, log, probes, faults = [], [], {}, {}
    st0 = (random.getstate(), numpy.random.get_state())
    X, gx, ex = run_program(sc, sc["prefix"][0], sc["worlds"][0])
    faults["prefix_history_switch"] = 1
    Y1, g1, _ = run_program(sc, sc["prefix"][1], sc["worlds"][0], hist=1)      # starts from whatever X left behind, other prefix
    faults["entropy_clock_world_switch"] = 1
    random.setstate(st0[0])
    numpy.random.set_state(st0[1])                                      # same interpreter history as X: only the world differs
    Y2, g2, _ = run_program(sc, sc["prefix"][0], sc["worlds"][1])
    log.append(["X", X, gx])
    if ex:
        probes["entropy_read_after_seed"] = 1
    for tag, Y, g, cond in (("Y1", Y1, g1, "prior-history"), ("Y2", Y2, g2, "entropy-or-clock")):
        i = _first_diff(X, Y)
        if i is not None:
            call = sc["steps"][i]["call"]
            if call == "use":
                call = "pre-existing:" + sc["persist"][sc["steps"][i]["obj"]]
            what = "output" if X[i][0] != Y[i][0] else "global generator state afterwards"
            V.append(viol("seeded-reproducibility", call, cond,
                          "after prng.seed(%d) step %d (%s): %s differs between two executions that differ only in %s (OS-entropy reads after seeding: %d)"
                          % (sc["seed"], i, call, what, cond, ex), step=i))
            break
        if g != gx:
            V.append(viol("seeded-reproducibility", "global-state", cond,
                          "final random/numpy.random states differ between executions that differ only in %s" % cond))
            break
    if not V and sc.get("fresh"):
        faults["fresh_interpreter"] = 1
        env = dict(os.environ, PYTHONHASHSEED="4242", PYTHONPATH=VERIF + os.pathsep + os.environ.get("VERIF_REPO", "/repo"))
        with entropy.active(None) if False else _noworld():
            q = subprocess.run([sys.executable, "-m", "sim.checks.c08_child"], input=json.dumps(sc), env=env, cwd=VERIF,
                               capture_output=True, text=True, timeout=100)
        line = [l for l in q.stdout.splitlines() if l.startswith("C08CHILD ")]
        if not line:
            raise RuntimeError("fresh-interpreter child failed: " + (q.stdout + q.stderr)[-400:])
        Z, gz = json.loads(line[0][9:])
        i = _first_diff(X, Z)
        if i is not None or gz != gx:
            call = (sc["steps"][i]["call"] if sc["steps"][i]["call"] != "use" else "pre-existing:" + sc["persist"][sc["steps"][i]["obj"]]) if i is not None else "global-state"
            V.append(viol("seeded-reproducibility", call, "fresh-interpreter",
                          "result differs in a fresh interpreter with another PYTHONHASHSEED", step=i))
    return V, log, probes, faults


class _noworld:
    def __enter__(self):
        self.prev = entropy.CURRENT
        entropy.CURRENT = None

    def __exit__(self, *a):
        entropy.CURRENT = self.prev
        return False


class _quarantine:
    """Contain a component that is already known to read the global NumPy stream
    (``DenseCoancestryMatrix.apply_jitter`` has no ``rng`` parameter) so that the
    rest of the run is still decided: the call runs from a fixed global state and
    the caller's global state is restored afterwards.  Whether it consumed the
    global stream is recorded and reported under its own signature, so any other
    leak in the enclosing component keeps the ordinary signature."""

    def __init__(self):
        self.noted = {}

    def __enter__(self):
        from pybrops.popgen.cmat.DenseCoancestryMatrix import DenseCoancestryMatrix as K
        self.K, self.orig = K, K.__dict__["apply_jitter"]
        orig, noted = self.orig, self.noted

        def apply_jitter(obj, *a, **kw):
            saved = numpy.random.get_state()
            numpy.random.seed(20240229)
            before = numpy.random.get_state()[1].tobytes(), numpy.random.get_state()[2]
            try:
                return orig(obj, *a, **kw)
            finally:
                after = numpy.random.get_state()[1].tobytes(), numpy.random.get_state()[2]
                if after != before:
                    noted["DenseCoancestryMatrix.apply_jitter"] = noted.get("DenseCoancestryMatrix.apply_jitter", 0) + 1
                numpy.random.set_state(saved)
        K.apply_jitter = apply_jitter
        return self

    def __exit__(self, *a):
        self.K.apply_jitter = self.orig
        return False


def _exec_B(sc):
    V, log, probes, faults = [], [], {}, {}
    st = sc["steps"][0]
    name = st["call"]
    fn = catalog.CAT[name]["fn"]
    outs = []
    for rep in range(2):
        with entropy.active(entropy.World(sc["worlds"][rep])):
            if rep == 1:
                prng.seed(31337 + sc["seed"] % 1000)     # perturb both global streams
                numpy.random.random(3)
                random.random()
                if sc.get("between"):
                    _run_prefix(catalog.Ctx(sc["world"]), sc["between"])
                    faults["related_history_between_runs"] = 1
                faults["globals_perturbed"] = 1
                faults["entropy_clock_world_switch"] = 1
            else:
                prng.seed(sc["seed"])
            ctx = catalog.Ctx(sc["world"])
            g = rngseam.make(sc["kind"], sc["k"])
            g0 = rngseam.global_state_digest()
            q = _quarantine()
            try:
                with q:
                    out = _odig(fn(ctx, g, st["par"]))
            except Exception as e:
                out = ["EXC", type(e).__name__, str(e)[:120]]
            g1 = rngseam.global_state_digest()
            outs.append(out)
            for site, n in sorted(q.noted.items()):
                probes["quarantined_global_draw"] = 1
                if not any(v["component"] == site for v in V):
                    V.append(viol("explicit-rng-leaves-globals", site, "draws-from-global-stream",
                                  "%s given its own %s reached %s, which has no rng parameter and drew from the global NumPy stream (%d call(s)); "
                                  "contained for the rest of this run" % (name, sc["kind"], site, n), step=0))
            if g.ncalls == 0:
                probes["supplied_generator_never_used"] = 1
            if g1 != g0 and not V:
                V.append(viol("explicit-rng-leaves-globals", name, "global-state-changed",
                              "%s given its own %s changed the global random/numpy.random state (supplied generator calls: %d)"
                              % (name, sc["kind"], g.ncalls), step=0))
    log.append(["B", name, outs])
    if len(outs) == 2 and outs[0] != outs[1]:
        V.append(viol("explicit-rng-determines-result", name, "output-differs",
                      "%s with the same explicit generator state gave different results after the globals / entropy world changed" % name, step=0))
    return V, log, probes, faults


def execute(sc):
    if sc["clause"] == "A":
        V, log, probes, faults = _exec_A(sc)
    else:
        V, log, probes, faults = _exec_B(sc)
    names = sorted(s["call"] if s["call"] != "use" else "use:" + sc["persist"][s["obj"]] for s in sc["steps"])
    trace = "%s|%s|%s" % (sc["clause"], names, sc.get("kind"))
    return {"violations": V, "log": log, "trace": trace, "nontrivial": True, "faults": faults, "probes": probes,
            "sim": {"program_steps": len(sc["steps"]), "executions": 3 if sc["clause"] == "A" else 2}}
