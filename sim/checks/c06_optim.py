"""C06 — optimisers return feasible solutions with truthful objective values.

Every optimiser class that runs in this environment is driven on small generated
selection problems in the four decision encodings, under a seeded global
generator, an owned entropy/clock world (pymoo seeds itself from OS entropy
otherwise) and, where the class accepts one, a simulator-owned generator with
scripted legal ``choice`` outcomes (all-equal picks, first / last elements).
A wrapped ``minimize`` observes every pymoo generation (probe only).
"""
import copy
import itertools
import random

import numpy

from .. import compat  # noqa: F401
from ..core import viol, adig
from .. import rngseam, world
from ..snapshot import sdig

from pybrops.core.random import prng
from pybrops.opt.algo.SortingSubsetOptimizationAlgorithm import SortingSubsetOptimizationAlgorithm
from pybrops.opt.algo.SteepestDescentSubsetHillClimber import SteepestDescentSubsetHillClimber
from pybrops.opt.algo.SortingSteepestDescentSubsetHillClimber import SortingSteepestDescentSubsetHillClimber
from pybrops.opt.algo.SubsetGeneticAlgorithm import SubsetGeneticAlgorithm
from pybrops.opt.algo.RealGeneticAlgorithm import RealGeneticAlgorithm
from pybrops.opt.algo.IntegerGeneticAlgorithm import IntegerGeneticAlgorithm
from pybrops.opt.algo.BinaryGeneticAlgorithm import BinaryGeneticAlgorithm
from pybrops.opt.algo.NSGA2SubsetGeneticAlgorithm import NSGA2SubsetGeneticAlgorithm
from pybrops.opt.algo.NSGA2RealGeneticAlgorithm import NSGA2RealGeneticAlgorithm
from pybrops.opt.algo.NSGA2IntegerGeneticAlgorithm import NSGA2IntegerGeneticAlgorithm
from pybrops.opt.algo.NSGA2BinaryGeneticAlgorithm import NSGA2BinaryGeneticAlgorithm
from pybrops.opt.algo.NSGA3SubsetGeneticAlgorithm import NSGA3SubsetGeneticAlgorithm
from pybrops.opt.algo import NSGA2MemeticSubsetGeneticAlgorithm as MEM

PROP = "C06"
RUNS = {"quick": 12000, "thorough": 250000}
WALL = {"quick": 240, "thorough": 2400}
RUN_TIMEOUT = 120
RULE = ("scenario = optimiser class (17), problem (EBV family; encoding subset/real/integer/binary; 3-10 candidates, candidate set in index order or shuffled / partial (given at construction or through the setter), bounds of real/integer problems optionally re-set through the setters; subset size 1..n; 1 or 2 "
        "objectives; with/without an inequality constraint), hyper-parameters (ngen 1-4, pop 4-12), global seed, generator mode (global | own "
        "Generator | own RandomState) and choice script; distinct = (optimiser, encoding, nobj, constrained, generator mode, script, size class); "
        "non-trivial = the optimiser returned a solution")
COMPONENTS = {"real": ["17 optimiser classes of pybrops.opt.algo", "pymoo 0.6.2 (GA, NSGA-II, NSGA-III) and pybrops' pymoo_addon operators",
                       "EstimatedBreedingValue*SelectionProblem (evalfn)"],
              "stub": ["OS entropy / wall clock world", "generator subclass with scripted choice"]}
ASSUMPTIONS = ["objective / constraint values compared with a fresh prob.evalfn(decision) at rtol 1e-12",
               "binary vectors may be bool or integer typed; integer vectors must hold integral values of an integer dtype",
               "dominance is judged on the reported (weighted, minimised) objectives with feasibility first",
               "intermediate pymoo populations are observed as a probe only; C06 speaks of returned solutions"]

ALGOS = {
    "sorting": (SortingSubsetOptimizationAlgorithm, "subset", 1, False, False),
    "hc": (SteepestDescentSubsetHillClimber, "subset", 1, True, False),
    "sorting_hc": (SortingSteepestDescentSubsetHillClimber, "subset", 1, False, False),
    "ga.subset": (SubsetGeneticAlgorithm, "subset", 1, True, True),
    "ga.real": (RealGeneticAlgorithm, "real", 1, True, True),
    "ga.integer": (IntegerGeneticAlgorithm, "integer", 1, True, True),
    "ga.binary": (BinaryGeneticAlgorithm, "binary", 1, True, True),
    "nsga2.subset": (NSGA2SubsetGeneticAlgorithm, "subset", 2, True, True),
    "nsga2.real": (NSGA2RealGeneticAlgorithm, "real", 2, True, True),
    "nsga2.integer": (NSGA2IntegerGeneticAlgorithm, "integer", 2, True, True),
    "nsga2.binary": (NSGA2BinaryGeneticAlgorithm, "binary", 2, True, True),
    "nsga3.subset": (NSGA3SubsetGeneticAlgorithm, "subset", 2, True, True),
    "memetic.steepest": (MEM.NSGA2SteepestDescentSubsetGeneticAlgorithm, "subset", 2, True, True),
    "memetic.stochastic": (MEM.NSGA2StochasticDescentSubsetGeneticAlgorithm, "subset", 2, True, True),
    "memetic.mutatorA": (MEM.NSGA2MutatorASubsetGeneticAlgorithm, "subset", 2, True, True),
    "memetic.mutatorB": (MEM.NSGA2MutatorBSubsetGeneticAlgorithm, "subset", 2, True, True),
}


# legacy optimisers with the objective-function interface: optimize(objfn, k, sspace, objfn_wt) -> (score(s), decision(s), misc)
LEGACY = {"legacy.hc": ("UnconstrainedSteepestAscentSetHillClimber", 1), "legacy.setga": ("UnconstrainedSetGeneticAlgorithm", 1),
          "legacy.nsga2": ("UnconstrainedNSGA2SetGeneticAlgorithm", 2)}


def _gen_legacy(R):
    name = R.choice(sorted(LEGACY))
    n = R.randint(3, 9)
    k = R.randint(1, n - 1)
    ints = R.random() < 0.5               # small integer data: ties between different subsets
    ebv = [[float(R.randint(-2, 2)) if ints else R.gauss(0, 1) for _ in range(2)] for _ in range(n)]
    space = list(range(n))
    if R.random() < 0.4:
        R.shuffle(space)
        space = space[:R.randint(k + 1, n)] if k + 1 <= n else space
    nobj = LEGACY[name][1]
    return {"algo": name, "n": n, "k": min(k, len(space) - 1) or 1, "ebv": ebv, "space": space, "wt": [R.choice([1.0, 1.0, -1.0, 2.0]) for _ in range(nobj)],
            "ngen": R.randint(2, 4), "pop": R.choice([8, 12]), "seed": R.randrange(1 << 31), "mode": R.choice(["global", "Generator", "RandomState"]),
            "rngseed": R.randrange(1 << 30), "script": [], "entropy_world": R.randrange(1000), "con": False}


def generate(R, tier):
    if R.random() < 0.12:
        return _gen_legacy(R)
    name = R.choice(sorted(ALGOS))
    cls, kind, nobj, has_rng, ga = ALGOS[name]
    n = R.randint(3, 10)
    k = R.randint(1, n) if kind == "subset" else n
    if ga and kind == "subset" and k == n and R.random() < 0.7:
        k = R.randint(1, n - 1)
    ebv = [[round(R.gauss(0, 1), 3) if R.random() < 0.3 else R.gauss(0, 1) for _ in range(2)] for _ in range(n)]
    # objective data on other scales: a large common level with a small spread, very small and very large magnitudes
    estyle = R.choice(["plain", "plain", "plain", "level", "tiny", "huge"])
    if estyle == "level":
        ebv = [[2500.0 + 0.004 * v for v in row] for row in ebv]
    elif estyle == "tiny":
        ebv = [[1e-9 * v for v in row] for row in ebv]
    elif estyle == "huge":
        ebv = [[1e7 * v for v in row] for row in ebv]
    mode = R.choice(["global", "Generator", "RandomState"]) if has_rng else "global"
    # candidate set of a subset problem: every individual in index order, or an unsorted / partial set of them
    space, rebound = None, None
    if kind == "subset" and R.random() < 0.4:
        space = list(range(n))
        R.shuffle(space)
        space = space[:R.randint(max(k, 1), n)]
    if kind in ("real", "integer") and R.random() < 0.3:
        # history: the bounds of an existing problem are changed through its public setters before it is solved
        rebound = {"lo": 0.25 if kind == "real" else 1, "hi": 0.75 if kind == "real" else 2, "order": R.randrange(6), "via_setter": True}
    if kind == "subset" and space is not None:
        rebound = {"via_setter": R.random() < 0.4}
    script = []
    if name == "hc" and mode != "global":
        m = R.choice(["pass", "same", "first", "last"])
        if m != "pass":
            script = [{"method": "choice", "mode": m, "index": R.randrange(n)}]
    ocs = None
    if kind == "subset" and name != "sorting" and R.random() < 0.3:
        # non-separable objective: relationship (Cholesky-like upper triangular factor) enters through a norm
        ocs = [[round(abs(R.gauss(0.5, 0.4)) + (1.0 if i == j else 0.0), 3) if j >= i else 0.0 for j in range(n)] for i in range(n)]
    return {"algo": name, "n": n, "k": k, "space": space, "rebound": rebound, "ocs": ocs, "ebv": ebv, "estyle": estyle, "obj_wt": R.choice([None, None, 1.0, -1.0, 2.5, -0.5]), "caps": ({"grp": [R.randint(0, 1) for _ in range(n)], "cap": [R.randint(0, 2), R.randint(0, 2)], "flag": [R.randint(0, 1) for _ in range(n)],
                      "quota": (R.randint(0, k) if R.random() < 0.5 else None)}
                     if (kind == "subset" and R.random() < (0.6 if name in ("hc", "sorting_hc") else 0.2)) else None),
            "con": R.random() < 0.35, "eq": (name in ("hc", "sorting_hc", "ga.subset", "ga.real") and R.random() < 0.35), "ngen": R.randint(1, 4), "pop": R.choice([4, 6, 8, 12]),
            "seed": R.randrange(1 << 31), "mode": mode, "rngseed": R.randrange(1 << 30), "script": script, "entropy_world": R.randrange(1000)}


def shrink(sc):
    if sc["algo"] in LEGACY:
        for key, small in (("ngen", 2), ("pop", 8)):
            if sc[key] > small:
                c = copy.deepcopy(sc)
                c[key] = small
                yield c
        if sorted(sc["space"]) != sc["space"]:
            c = copy.deepcopy(sc)
            c["space"] = sorted(sc["space"])
            yield c
        if any(w != 1.0 for w in sc["wt"]):
            c = copy.deepcopy(sc)
            c["wt"] = [1.0] * len(sc["wt"])
            yield c
        return
    if sc.get("rebound") and ALGOS[sc["algo"]][1] != "subset":
        c = copy.deepcopy(sc)
        c["rebound"] = None
        yield c
    if sc.get("ocs") is not None:
        c = copy.deepcopy(sc)
        c["ocs"] = None
        yield c
    if sc.get("space") is not None:
        c = copy.deepcopy(sc)
        c["space"] = None
        c["rebound"] = None
        yield c
        if sorted(sc["space"]) != sc["space"]:
            c = copy.deepcopy(sc)
            c["space"] = sorted(sc["space"])
            yield c
    if sc["script"]:
        c = copy.deepcopy(sc)
        c["script"] = []
        yield c
    if sc["con"]:
        c = copy.deepcopy(sc)
        c["con"] = False
        yield c
    if sc.get("eq"):
        c = copy.deepcopy(sc)
        c["eq"] = False
        yield c
    if sc.get("caps"):
        c = copy.deepcopy(sc)
        c["caps"] = None
        yield c
    if sc.get("obj_wt") is not None:
        c = copy.deepcopy(sc)
        c["obj_wt"] = None
        yield c
    for key, small in (("ngen", 1), ("pop", 4)):
        if sc[key] > small:
            c = copy.deepcopy(sc)
            c[key] = small
            yield c
    if sc["n"] > 3 and not sc.get("caps") and sc.get("space") is None and sc.get("ocs") is None:
        c = copy.deepcopy(sc)
        c["n"] -= 1
        c["ebv"] = c["ebv"][:-1]
        c["k"] = min(c["k"], c["n"])
        yield c
    if sc["k"] > 1 and ALGOS[sc["algo"]][1] == "subset" and sc.get("space") is None:
        c = copy.deepcopy(sc)
        c["k"] -= 1
        yield c


def _dominates(f1, cv1, f2, cv2):
    if cv1 <= 0 and cv2 <= 0:
        return bool(numpy.all(f1 <= f2) and numpy.any(f1 < f2))
    return cv1 < cv2


def _wrap_minimize(mod, record):
    """Wrap the ``minimize`` name a pybrops algorithm module imported from pymoo: add a per-generation callback."""
    orig = getattr(mod, "minimize", None)
    if orig is None:
        return None

    def wrapped(*a, **k):
        if "callback" not in k:
            def cb(algorithm):
                try:
                    record.append(numpy.array(algorithm.pop.get("X")))
                except Exception:
                    pass
            k["callback"] = cb
        return orig(*a, **k)
    setattr(mod, "minimize", wrapped)
    return orig


def _feasible(kind, x, prob, k):
    """Return None if decision vector x lies in the decision space else a (cond, message)."""
    x = numpy.asarray(x)
    if x.shape != (prob.ndecn,):
        return ("shape", "decision has shape %r, expected (%d,)" % (x.shape, prob.ndecn))
    if kind == "subset":
        xs = x.tolist()
        if len(set(xs)) != len(xs):
            return ("duplicate-member", "subset %s repeats a member" % xs)
        if not set(xs) <= set(numpy.asarray(prob.decn_space).tolist()):
            return ("outside-candidates", "subset %s has members outside the candidate set" % xs)
        return None
    lo, hi = numpy.asarray(prob.decn_space_lower), numpy.asarray(prob.decn_space_upper)
    if numpy.any(x < lo) or numpy.any(x > hi):
        return ("out-of-bounds", "decision %s outside [%s, %s]" % (x.tolist(), lo.tolist(), hi.tolist()))
    if kind == "integer":
        if x.dtype.kind not in "iu":
            return ("dtype", "integer decision has dtype %s" % x.dtype)
    elif kind == "binary":
        if x.dtype.kind not in "iub" or not set(numpy.asarray(x, dtype=int).tolist()) <= {0, 1}:
            return ("dtype", "binary decision %s (dtype %s) is not 0/1" % (x.tolist(), x.dtype))
    elif kind == "real":
        if x.dtype.kind != "f":
            return ("dtype", "real decision has dtype %s" % x.dtype)
    return None


def _exec_legacy(sc):
    import importlib
    name = sc["algo"]
    cname, nobj = LEGACY[name]
    cls = getattr(importlib.import_module("pybrops.opt.algo." + cname), cname)
    C = cname + ".optimize"
    V, log, faults, probes = [], [], {}, {}
    ebv = numpy.array(sc["ebv"], dtype=float)
    space = numpy.array(sc["space"], dtype=int)
    wt = numpy.array(sc["wt"], dtype=float)
    k = sc["k"]

    def objfn(sel, **kw):
        v = ebv[numpy.asarray(sel, dtype=int)].sum(0)
        return (float(v[0]), float(v[1])) if nobj == 2 else (float(v.sum()) if name == "legacy.hc" else (float(v.sum()),))
    kw = {} if name == "legacy.hc" else dict(ngen=sc["ngen"], mu=sc["pop"], lamb=sc["pop"])
    g = None
    if sc["mode"] != "global":
        g = rngseam.make(sc["mode"], sc["rngseed"], [])
        kw["rng"] = g
    prng.seed(sc["seed"])
    space0 = space.copy()
    try:
        res = cls(**kw).optimize(objfn, k, space, wt if nobj == 2 or name != "legacy.hc" else float(wt[0]))
    except Exception as e:
        V.append(viol("optimiser-completes", C, "raises:%s" % type(e).__name__, "%s (n=%d, k=%d, candidates %s, weights %s) raised %s: %s" % (name, sc["n"], k, sc["space"], sc["wt"], type(e).__name__, str(e)[:200])))
        return _out(sc, V, log, faults, probes, False, g)
    if not numpy.array_equal(space, space0):
        V.append(viol("problem-unmodified", C, "search-space", "the candidate array handed to optimize() was modified"))
        return _out(sc, V, log, faults, probes, True, g)
    F = numpy.atleast_2d(numpy.asarray(res[0], dtype=float))
    X = numpy.atleast_2d(numpy.asarray(res[1]))
    if nobj == 1:
        F = F.reshape(len(X), -1)
    log.append([name, adig(X), adig(F)])
    if len(X) == 0 or len(F) != len(X):
        V.append(viol("solution-shape", C, "shape", "scores %r for decisions %r" % (F.shape, X.shape)))
        return _out(sc, V, log, faults, probes, True, g)
    cand = set(space.tolist())
    for i, x in enumerate(X):
        xs = [int(v) for v in x.tolist()]
        if len(xs) != k or len(set(xs)) != len(xs):
            V.append(viol("solution-in-decision-space", C, "duplicate-member" if len(xs) == k else "shape", "%s returned %s for a subset of %d distinct candidates" % (name, xs, k)))
            return _out(sc, V, log, faults, probes, True, g)
        if not set(xs) <= cand:
            V.append(viol("solution-in-decision-space", C, "outside-candidates", "%s returned %s, candidates %s" % (name, xs, sorted(cand))))
            return _out(sc, V, log, faults, probes, True, g)
        fresh = numpy.atleast_1d(numpy.asarray(objfn(xs), dtype=float))
        if fresh.shape != F[i].shape or not numpy.allclose(fresh, F[i], rtol=1e-12, atol=1e-300):
            V.append(viol("reported-values-truthful", C, "objective", "decision %s: reported %s, fresh evaluation %s" % (xs, F[i].tolist(), fresh.tolist())))
            return _out(sc, V, log, faults, probes, True, g)
    if nobj == 2 and len(X) > 1:
        W = F * wt[None, :]                    # maximising in every weighted objective
        for i in range(len(X)):
            for j in range(len(X)):
                if i != j and numpy.all(W[i] >= W[j]) and numpy.any(W[i] > W[j]):
                    V.append(viol("front-non-dominated", C, "dominated-member", "returned point %s (decision %s) is dominated by returned point %s (weights %s)" % (F[j].tolist(), X[j].tolist(), F[i].tolist(), sc["wt"])))
                    return _out(sc, V, log, faults, probes, True, g)
        probes["legacy_front_checked"] = 1
    if name == "legacy.hc":
        x = [int(v) for v in X[0].tolist()]
        s0 = float(F[0].sum()) * float(wt[0])
        rest = [c for c in space.tolist() if c not in set(x)]
        for i in range(len(x)):
            for c in rest:
                y = list(x)
                y[i] = c
                s1 = float(objfn(y)) * float(wt[0])
                if s1 > s0 + 1e-12 * (1 + abs(s0)):
                    V.append(viol("hillclimber-local-optimum", C, "improving-exchange", "replacing %d in %s by %d raises the weighted score from %r to %r" % (x[i], x, c, s0, s1)))
                    return _out(sc, V, log, faults, probes, True, g)
        probes["exchange_neighbourhood_searched"] = 1
    return _out(sc, V, log, faults, probes, True, g)


def execute(sc):
    if sc["algo"] in LEGACY:
        return _exec_legacy(sc)
    name = sc["algo"]
    cls, kind, nobj, has_rng, ga = ALGOS[name]
    ebv = numpy.array(sc["ebv"], dtype=float)
    space, rb = sc.get("space"), sc.get("rebound")
    V, log, faults, probes = [], [], {}, {}
    if sc.get("ocs") is not None:
        faults["non_separable_objective"] = 1
    pkw = dict(ocs=sc.get("ocs") if kind == "subset" else None, nobj=nobj, ndecn=sc["k"] if kind == "subset" else None, con=sc["con"] and not sc.get("caps"), eq=sc.get("eq", False), obj_wt=sc.get("obj_wt"), caps=sc.get("caps") or False)
    if kind == "subset" and space is not None and rb and rb.get("via_setter"):
        prob = world.ebv_problem(kind, ebv, **pkw)
        prob.decn_space = numpy.array(space, dtype=int)                # candidate set replaced on the existing problem
        faults["candidate_set_replaced_via_setter"] = 1
    else:
        prob = world.ebv_problem(kind, ebv, space=space if kind == "subset" else None, **pkw)
    if kind == "subset" and space is not None:
        faults["candidate_set_unsorted" if sorted(space) != space else "candidate_set_partial"] = 1
    if kind in ("real", "integer") and rb:
        nvar = prob.ndecn
        lo = numpy.repeat(rb["lo"], nvar) if kind == "real" else numpy.repeat(int(rb["lo"]), nvar)
        hi = numpy.repeat(rb["hi"], nvar) if kind == "real" else numpy.repeat(int(rb["hi"]), nvar)
        acts = [lambda: setattr(prob, "decn_space_lower", lo), lambda: setattr(prob, "decn_space_upper", hi), lambda: setattr(prob, "decn_space", numpy.stack([lo, hi]))]
        for a in list(itertools.permutations(range(3)))[rb["order"] % 6]:
            acts[a]()
        faults["bounds_changed_via_setters"] = 1
    ncand = len(space) if (kind == "subset" and space is not None) else sc["n"]
    C = cls.__name__ + ".minimize"
    kw = {}
    if ga:
        kw = dict(ngen=sc["ngen"], pop_size=sc["pop"])
    g = None
    if sc["mode"] != "global":
        g = rngseam.make(sc["mode"], sc["rngseed"], sc["script"])
        kw["rng"] = g
    prng.seed(sc["seed"])
    pdig = sdig(prob)
    record = []
    import sys
    mod = sys.modules[cls.__module__]
    orig = _wrap_minimize(mod, record) if ga else None
    try:
        try:
            algo = cls(**kw)
            soln = algo.minimize(prob)
        finally:
            if orig is not None:
                setattr(mod, "minimize", orig)
    except Exception as e:
        if (sc["con"] or sc.get("eq") or sc.get("caps")) and record:
            # pymoo reports no solution (X is None) when the final population holds no feasible member; C06 speaks of
            # returned solutions, so a run that returns none is recorded, not judged
            feas = False
            for x in record[-1]:
                try:
                    o, gi, hi = prob.evalfn(numpy.asarray(x))
                    if float(numpy.sum(numpy.maximum(gi, 0.0))) + float(numpy.sum(numpy.abs(hi))) <= 0.0:
                        feas = True
                        break
                except Exception:
                    pass
            if not feas:
                probes["no_feasible_member_no_solution_returned"] = 1
                return _out(sc, V, log, faults, probes, False, g)
        V.append(viol("optimiser-completes", C, "raises:%s|%s" % (type(e).__name__, "k=n" if sc["k"] == ncand else "k<n"),
                      "%s on %s problem (n=%d, k=%d, con=%s) raised %s: %s" % (name, kind, sc["n"], sc["k"], sc["con"], type(e).__name__, str(e)[:200])))
        return _out(sc, V, log, faults, probes, False, g)
    if g is not None:
        faults.update(g.fired)
    # intermediate populations: probe only
    for X in record:
        for x in X:
            if _feasible(kind, numpy.asarray(x) if kind != "subset" else numpy.asarray(x), prob, sc["k"]) is not None and kind == "subset":
                probes["intermediate_individual_outside_space"] = probes.get("intermediate_individual_outside_space", 0) + 1
                break
    probes["generations_observed"] = len(record)
    if sdig(prob) != pdig:
        V.append(viol("problem-unmodified", C, "problem", "the problem object was modified by minimize()"))
        return _out(sc, V, log, faults, probes, True, g)
    X = numpy.asarray(soln.soln_decn)
    F = numpy.asarray(soln.soln_obj)
    G = None if soln.soln_ineqcv is None else numpy.asarray(soln.soln_ineqcv)
    H = None if soln.soln_eqcv is None else numpy.asarray(soln.soln_eqcv)
    log.append([name, adig(X), adig(F)])
    if X.ndim != 2 or len(X) != soln.nsoln or len(F) != len(X) or len(X) == 0:
        V.append(viol("solution-shape", C, "shape", "soln_decn %r soln_obj %r nsoln %r" % (X.shape, F.shape, soln.nsoln)))
        return _out(sc, V, log, faults, probes, True, g)
    cvs = []
    for i, x in enumerate(X):
        bad = _feasible(kind, x, prob, sc["k"])
        if bad is not None:
            V.append(viol("solution-in-decision-space", C, bad[0], "%s: %s (generator mode %s, script %s)" % (name, bad[1], sc["mode"], sc["script"])))
            return _out(sc, V, log, faults, probes, True, g)
        o, gi, hi = prob.evalfn(x)
        if not numpy.allclose(o, F[i], rtol=1e-12, atol=1e-300):
            V.append(viol("reported-values-truthful", C, "objective", "solution %d: reported objectives %s, fresh evaluation %s" % (i, F[i].tolist(), numpy.asarray(o).tolist())))
            return _out(sc, V, log, faults, probes, True, g)
        if len(gi) and (G is None or G.shape[0] != len(X) or not numpy.allclose(gi, G[i], rtol=1e-12, atol=1e-300)):
            V.append(viol("reported-values-truthful", C, "ineqcv", "solution %d: reported inequality violations %s, fresh evaluation %s" % (i, None if G is None else G[i].tolist(), numpy.asarray(gi).tolist())))
            return _out(sc, V, log, faults, probes, True, g)
        if len(hi) and (H is None or H.shape[0] != len(X) or not numpy.allclose(hi, H[i], rtol=1e-12, atol=1e-300)):
            V.append(viol("reported-values-truthful", C, "eqcv", "solution %d: equality violations differ" % i))
            return _out(sc, V, log, faults, probes, True, g)
        cvs.append(float(numpy.sum(numpy.maximum(gi, 0.0))) + float(numpy.sum(numpy.abs(hi))))
    if len(X) > 1:
        for i in range(len(X)):
            for j in range(len(X)):
                if i != j and _dominates(F[i], cvs[i], F[j], cvs[j]):
                    V.append(viol("front-non-dominated", C, "dominated-member", "solution %d %s (cv %g) dominates returned solution %d %s (cv %g)" %
                                  (i, F[i].tolist(), cvs[i], j, F[j].tolist(), cvs[j])))
                    return _out(sc, V, log, faults, probes, True, g)
    # exhaustive sorting optimiser: brute-force optimum of a separable single-objective problem
    if name == "sorting" and not sc["con"] and not sc.get("eq") and not sc.get("caps") and sc["n"] <= 10:
        best = min(float(prob.evalfn(numpy.array(c))[0].sum()) for c in itertools.combinations(space if space is not None else range(sc["n"]), sc["k"]))
        got = float(F[0].sum())
        if got > best + 1e-12 * (1 + abs(best)):
            V.append(viol("sorting-attains-optimum", C, "suboptimal", "objective %r, brute-force optimum over C(%d,%d) subsets is %r" % (got, sc["n"], sc["k"], best)))
            return _out(sc, V, log, faults, probes, True, g)
        probes["brute_force_compared"] = 1
    # hill-climbers stop only where no single exchange improves (violation, score)
    if name in ("hc", "sorting_hc"):
        x = X[0].copy()
        cv0 = cvs[0]
        s0 = float(F[0].sum())
        rest = [c for c in numpy.asarray(prob.decn_space).tolist() if c not in set(x.tolist())]
        for i in range(len(x)):
            for c in rest:
                y = x.copy()
                y[i] = c
                o, gi, hi = prob.evalfn(y)
                cv = float(numpy.sum(gi)) + float(numpy.sum(hi))
                cvx = float(numpy.sum(prob.evalfn(x)[1])) + float(numpy.sum(prob.evalfn(x)[2]))
                if cv < cvx or (cv == cvx and float(o.sum()) < s0 - 1e-15 * (1 + abs(s0))):
                    V.append(viol("hillclimber-local-optimum", C, "improving-exchange", "replacing member %d of %s by %d improves (violation, score) from (%g, %r) to (%g, %r)" %
                                  (int(x[i]), x.tolist(), c, cvx, s0, cv, float(o.sum()))))
                    return _out(sc, V, log, faults, probes, True, g)
        probes["exchange_neighbourhood_searched"] = 1
    return _out(sc, V, log, faults, probes, True, g)


def _out(sc, V, log, faults, probes, ran, g):
    if sc["algo"] in LEGACY:
        trace = "%s|%s|w%s|n%d|k%d|%s" % (sc["algo"], sc["mode"], sc["wt"], sc["n"], sc["k"], "sp" if sorted(sc["space"]) != sc["space"] or len(sc["space"]) != sc["n"] else "-")
        return {"violations": V, "log": log, "trace": trace, "nontrivial": ran, "faults": faults, "probes": probes, "sim": {"optimiser_runs": 1}}
    trace = "%s|con=%s%s%s|w%s|%s|%s|n%s|k%s" % (sc["algo"], sc["con"], "+eq" if sc.get("eq") else "", "+caps" if sc.get("caps") else "",
                                           "-" if (sc.get("obj_wt") or 1) < 0 else "+", sc["mode"], [r["mode"] for r in sc["script"]], "S" if sc["n"] <= 5 else "L",
                                         ("=n" if sc["k"] == (len(sc["space"]) if sc.get("space") is not None else sc["n"]) else ("1" if sc["k"] == 1 else "m")) + ("|sp" if sc.get("space") is not None else "") + ("|rb" if sc.get("rebound") else "") + ("|ocs" if sc.get("ocs") is not None else "") + "|" + sc.get("estyle", "plain"))
    return {"violations": V, "log": log, "trace": trace, "nontrivial": ran, "faults": faults, "probes": probes,
            "sim": {"optimiser_runs": 1, "pymoo_generations": probes.get("generations_observed", 0)}}
