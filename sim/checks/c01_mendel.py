"""C01 — progeny inherit only their designated parents' haplotypes.

Founders carry *provenance allele codes* (code = base + 2*taxon + copy), so every
progeny cell names the founder chromosome copy it came from.  All seven mating
protocols (and the low-level meiosis helpers of both util modules) are driven by
a simulator-owned generator: real draws over many seeds, and scripted legal
extremes — every uniform == 0.0 (crossover at every interval with non-zero
probability, and only there), == nextafter(1, 0) (none), == xoprob[j] exactly
(the boundary of the strict comparison).
"""
import copy
import random
import re

import numpy

from .. import compat  # noqa: F401
from ..core import viol, adig
from .. import rngseam, world
from ..world import obj
from ..snapshot import sdig

from pybrops.breed.prot.mate.SelfCross import SelfCross
from pybrops.breed.prot.mate.TwoWayCross import TwoWayCross
from pybrops.breed.prot.mate.TwoWayDHCross import TwoWayDHCross
from pybrops.breed.prot.mate.ThreeWayCross import ThreeWayCross
from pybrops.breed.prot.mate.ThreeWayDHCross import ThreeWayDHCross
from pybrops.breed.prot.mate.FourWayCross import FourWayCross
from pybrops.breed.prot.mate.FourWayDHCross import FourWayDHCross
from pybrops.breed.prot.mate import util as putil
from pybrops.core.util import mate as cutil

PROP = "C01"
RUNS = {"quick": 60000, "thorough": 500000}
WALL = {"quick": 150, "thorough": 1500}
RULE = ("scenario = founders with provenance codes (1-10 taxa, 1-16 markers, 1-3 chromosomes, xoprob with exact 0/0.5), "
        "one protocol object, 1-3 mate() calls (cross table incl. selfs/repeats, scalar or per-cross nmating/nprogeny incl. "
        "zeros, nself 0-3) or low-level meiosis/dh/cross calls, generator kind and uniform script (pass/low/high/at-xoprob); design arrays compared before/after each call; "
        "distinct = (protocol, count forms, nself, script, chromosome count) ; non-trivial = at least one progeny produced")
COMPONENTS = {"real": ["SelfCross, TwoWayCross, TwoWayDHCross, ThreeWayCross, ThreeWayDHCross, FourWayCross, FourWayDHCross (.mate)",
                       "pybrops.breed.prot.mate.util mat_meiosis/mat_dh/mat_mate", "pybrops.core.util.mate dense_meiosis/dense_dh/dense_cross",
                       "DensePhasedGenotypeMatrix"],
              "stub": ["generator subclass (sim.rngseam) recording / scripting uniform draws"]}
ASSUMPTIONS = ["three- and four-way crosses: which chromosome copy descends from which side is required to be consistent within a run, not fixed a priori",
               "order of progeny inside one family is not constrained (they are exchangeable); family blocks must follow the cross table",
               "name prefix is learned from the first name; the counter suffix must be the zero-padded running counter"]

PROT = {"self": (SelfCross, 1, False), "2w": (TwoWayCross, 2, False), "2wdh": (TwoWayDHCross, 2, True),
        "3w": (ThreeWayCross, 3, False), "3wdh": (ThreeWayDHCross, 3, True),
        "4w": (FourWayCross, 4, False), "4wdh": (FourWayDHCross, 4, True)}
LOW = {"mat_meiosis": putil.mat_meiosis, "mat_dh": putil.mat_dh, "mat_mate": putil.mat_mate,
       "dense_meiosis": cutil.dense_meiosis, "dense_dh": cutil.dense_dh, "dense_cross": cutil.dense_cross}


def _counts(R, ncross):
    if R.random() < 0.5:
        return R.randint(1, 3)
    return [R.randint(0, 3) for _ in range(ncross)]


def generate(R, tier):
    nt = R.randint(1, 10)
    nchr = R.randint(1, 3)
    nv = R.randint(nchr, 16)
    lowlevel = R.random() < 0.15
    mode = R.choice(["pass", "pass", "pass", "low", "high", "at"])
    script = [] if mode == "pass" else [{"method": "uniform", "mode": mode}]
    sc = {"world": {"seed": R.randrange(1 << 30), "ntaxa": nt, "nvrnt": nv, "nchr": nchr, "base": R.choice([0, 0, -128, 100]),
                    "grouped": R.random() < 0.8, "xo_one": R.random() < 0.1, "fullmeta": R.random() < 0.7},
          "rng": {"kind": R.choice(["Generator", "Generator", "RandomState"]), "seed": R.randrange(1 << 30), "script": script, "umode": mode}}
    steps = []
    if lowlevel:
        sc["protocol"] = None
        for _ in range(R.randint(1, 2)):
            fn = R.choice(sorted(LOW))
            nsel = R.randint(0, 6)
            st = {"op": "low", "fn": fn, "sel": [R.randrange(nt) for _ in range(nsel)]}
            if fn in ("mat_mate", "dense_cross"):
                st["msel"] = [R.randrange(nt) for _ in range(nsel)]
            steps.append(st)
    else:
        pname = R.choice(sorted(PROT))
        sc["protocol"] = pname
        sc["progeny_counter"] = R.choice([0, 0, 5, 9999995, 9999999])
        sc["family_counter"] = R.choice([0, 0, 3, 1000])
        npar = PROT[pname][1]
        for _ in range(R.choice([1, 1, 2, 3])):
            ncross = R.randint(1, 6) if R.random() < 0.95 else 0
            style = R.random()
            xc = []
            for _c in range(ncross):
                if style < 0.15:
                    row = [R.randrange(nt)] * npar          # selfs / identical parents
                else:
                    row = [R.randrange(nt) for _p in range(npar)]
                xc.append(row)
            st = {"op": "mate", "xconfig": xc, "nmating": _counts(R, ncross), "nprogeny": _counts(R, ncross),
                  "nself": R.choice([0, 0, 0, 1, 2, 3]), "npscalar": R.random() < 0.2, "xdtype": R.choice(["int64", "int64", "int32", "uint8", "int8", "int16"]),
                  # some parents named from the end of the taxa axis (index i - ntaxa), as NumPy indexing allows
                  "negidx": R.random() < 0.12}
            if R.random() < 0.03 and ncross:
                # many matings per cross: more than 127 hybrids in total
                st["nmating"] = [R.randint(30, 70) for _ in range(ncross)] if R.random() < 0.5 else R.randint(130 // ncross + 1, 130 // ncross + 40)
                st["nprogeny"] = 1
                st["nself"] = R.choice([0, 0, 1])
            steps.append(st)
    sc["steps"] = steps
    return sc


def shrink(sc):
    if sc["rng"]["script"]:
        c = copy.deepcopy(sc)
        c["rng"]["script"] = []
        c["rng"]["umode"] = "pass"
        yield c
    if sc["rng"]["kind"] != "Generator":
        c = copy.deepcopy(sc)
        c["rng"]["kind"] = "Generator"
        yield c
    for i, st in enumerate(sc["steps"]):
        if st["op"] != "mate":
            if len(st["sel"]) > 1:
                c = copy.deepcopy(sc)
                c["steps"][i]["sel"] = st["sel"][:-1]
                if "msel" in st:
                    c["steps"][i]["msel"] = st["msel"][:-1]
                yield c
            continue
        if len(st["xconfig"]) > 1:
            for r in range(len(st["xconfig"])):
                c = copy.deepcopy(sc)
                s2 = c["steps"][i]
                del s2["xconfig"][r]
                for k in ("nmating", "nprogeny"):
                    if isinstance(s2[k], list):
                        del s2[k][r]
                yield c
        if st["nself"] > 0:
            c = copy.deepcopy(sc)
            c["steps"][i]["nself"] -= 1
            yield c
        for k in ("nmating", "nprogeny"):
            if isinstance(st[k], list):
                if len(set(st[k])) == 1:
                    c = copy.deepcopy(sc)
                    c["steps"][i][k] = st[k][0] if st[k] else 1
                    yield c
                for r, v in enumerate(st[k]):
                    if v > 1:
                        c = copy.deepcopy(sc)
                        c["steps"][i][k][r] = 1
                        yield c
            elif st[k] > 1:
                c = copy.deepcopy(sc)
                c["steps"][i][k] = 1
                yield c
    for k in ("progeny_counter", "family_counter"):
        if sc.get(k):
            c = copy.deepcopy(sc)
            c[k] = 0
            yield c
    w = sc["world"]
    if w["nvrnt"] > w["nchr"]:
        c = copy.deepcopy(sc)
        c["world"]["nvrnt"] -= 1
        yield c
    if w["nchr"] > 1:
        c = copy.deepcopy(sc)
        c["world"]["nchr"] -= 1
        yield c


def _founders(w):
    R = random.Random(w["seed"])
    pg = world.pgmat(R, w["ntaxa"], w["nvrnt"], w["nchr"], provenance=True, grouped=w["grouped"])
    if w["base"]:
        pg.mat = (pg.mat.astype(int) + w["base"]).astype("int8")
    if w.get("fullmeta", True):
        # every per-marker field a genotype matrix can carry
        nv = pg.nvrnt
        pg.vrnt_hapgrp = numpy.array([R.randint(0, 3) for _ in range(nv)], dtype=int)
        pg.vrnt_hapalt = obj([R.choice("ACGT") for _ in range(nv)])
        pg.vrnt_hapref = obj([R.choice("ACGT") for _ in range(nv)])
        pg.vrnt_mask = numpy.array([R.random() < 0.7 for _ in range(nv)], dtype=bool)
    if w.get("xo_one"):
        xo = pg.vrnt_xoprob.copy()
        xo[R.randrange(len(xo))] = 1.0
        pg.vrnt_xoprob = xo
    return pg


def _labels(base, t):
    return {base + 2 * t, base + 2 * t + 1}


def _sides(pname, x, base):
    """Allowed founder-copy labels for (copy 0, copy 1), and the alternative orientation (or None)."""
    L = lambda t: _labels(base, t)
    if pname == "self":
        return (L(x[0]), L(x[0])), None
    npar = PROT[pname][1]
    if npar == 2:
        return (L(x[0]), L(x[1])), None
    if npar == 3:
        a, b = L(x[0]), L(x[1]) | L(x[2])
    else:
        a, b = L(x[2]) | L(x[3]), L(x[0]) | L(x[1])
    return (a, b), (b, a)


def _check_mosaic(row, allowed, xo):
    """row: 1-d labels of one chromosome copy.  Returns None or (kind, detail)."""
    got = set(row.tolist())
    if not got <= allowed:
        return ("foreign-haplotype", "labels %s not within %s" % (sorted(got - allowed), sorted(allowed)))
    sw = numpy.flatnonzero(row[1:] != row[:-1]) + 1
    bad = sw[xo[sw] == 0.0]
    if len(bad):
        return ("switch-at-zero-probability", "source copy changes before marker(s) %s where xoprob is 0" % bad.tolist())
    return None


def _mate_step(sc, st, ix, pg, mp, pname, state, V, log, probes):
    base = sc["world"]["base"]
    cls, npar, isdh = PROT[pname]
    xo = pg.vrnt_xoprob
    ncross = len(st["xconfig"])
    xconfig = numpy.array(st["xconfig"], dtype=int).reshape(ncross, npar)
    if st.get("negidx") and not numpy.dtype(st.get("xdtype", "int64")).kind == "u" and xconfig.size:
        # the same individuals, every other entry counted from the end
        neg = xconfig.copy()
        neg.flat[::2] = neg.flat[::2] - pg.ntaxa
        xconfig_for_call = neg.astype(st.get("xdtype", "int64"))
    else:
        xconfig_for_call = xconfig.astype(st.get("xdtype", "int64"))
    xconfig = xconfig.astype(st.get("xdtype", "int64"))
    nm = st["nmating"] if isinstance(st["nmating"], int) else numpy.array(st["nmating"], dtype=int)
    npg = st["nprogeny"] if isinstance(st["nprogeny"], int) else numpy.array(st["nprogeny"], dtype=int)
    if st.get("npscalar"):
        # NumPy integer scalars are Integral too
        nm = numpy.int64(nm) if isinstance(nm, int) else nm
        npg = numpy.int32(npg) if isinstance(npg, int) else npg
    nmv = numpy.broadcast_to(nm, (ncross,)).astype(int)
    npv = numpy.broadcast_to(npg, (ncross,)).astype(int)
    cnt = nmv * npv
    total = int(cnt.sum())
    C = cls.__name__ + ".mate"
    before = sdig(pg)
    pc0, fc0 = state["pc"], state["fc"]
    args0 = [numpy.array(a, copy=True) for a in (xconfig_for_call, nm, npg)]
    try:
        prog = mp.mate(pg, xconfig_for_call, nm, npg, nself=st["nself"])
    except Exception as e:
        cond = "raises:%s@%s" % (type(e).__name__, "empty" if total == 0 else "nonempty")
        V.append(viol("mate-completes", C, cond, "step %d: %s: %s (ncross=%d nmating=%s nprogeny=%s nself=%d)" %
                      (ix, type(e).__name__, e, ncross, st["nmating"], st["nprogeny"], st["nself"]), step=ix))
        return False
    log.append(["mate", ix, adig(prog.mat), adig(prog.taxa), adig(prog.taxa_grp)])
    if sdig(pg) != before:
        V.append(viol("parents-unaltered", C, "pgmat", "step %d: parental genotype matrix changed by mate()" % ix, step=ix))
        return False
    # the caller's design arrays are what a later call with the same objects would be read from
    for nm_, a0, a1 in zip(("xconfig", "nmating", "nprogeny"), args0, (xconfig_for_call, nm, npg)):
        if not numpy.array_equal(a0, numpy.asarray(a1)):
            V.append(viol("design-follows-arguments", C, "argument-modified:" + nm_,
                          "step %d: mate() changed the caller's %s from %s to %s: the next call with the same object no longer follows the design" %
                          (ix, nm_, a0.tolist(), numpy.asarray(a1).tolist()), step=ix))
            return False
    if prog.mat.shape != (2, total, pg.nvrnt) or prog.ntaxa != total:
        V.append(viol("progeny-count", C, "nself=%d" % min(st["nself"], 1), "step %d: %d progeny, configuration dictates %d (nmating=%s nprogeny=%s)" %
                      (ix, prog.mat.shape[1], total, st["nmating"], st["nprogeny"]), step=ix))
        return False
    if prog.mat.dtype != pg.mat.dtype:
        V.append(viol("progeny-dtype", C, "dtype", "progeny dtype %s, parents %s" % (prog.mat.dtype, pg.mat.dtype), step=ix))
        return False
    # family blocks follow the cross table
    exp_fam = numpy.repeat(numpy.arange(fc0, fc0 + ncross), cnt)
    fam = numpy.asarray(prog.taxa_grp)
    if fam.shape != exp_fam.shape or not numpy.array_equal(fam, exp_fam):
        V.append(viol("family-labels", C, "blocks", "step %d: family labels %s, expected %s" % (ix, fam.tolist()[:30], exp_fam.tolist()[:30]), step=ix))
        return False
    # names: prefix + zero-padded running counter, each family gets its contiguous counter range
    names = [str(v) for v in prog.taxa.tolist()]
    if total:
        m0 = re.match(r"^(.*?)(\d{7,})$", names[0])
        prefix = m0.group(1) if m0 else None
        exp_names = set()
        okn = prefix is not None
        pos = 0
        for c in range(ncross):
            want = {prefix + str(pc0 + pos + j).zfill(7) for j in range(int(cnt[c]))} if okn else set()
            gotn = set(names[pos:pos + int(cnt[c])])
            if okn and gotn != want:
                okn = False
            pos += int(cnt[c])
        if not okn or len(set(names)) != total:
            V.append(viol("progeny-names", C, "counter", "step %d: names %s do not follow counter %d (families %s)" % (ix, names[:12], pc0, cnt.tolist()), step=ix))
            return False
        if any(len(str(pc0 + j)) > 7 for j in (0, total - 1)):
            probes["name_counter_rollover"] = probes.get("name_counter_rollover", 0) + 1
    if getattr(mp, "progeny_counter", None) != pc0 + total or getattr(mp, "family_counter", None) != fc0 + ncross:
        V.append(viol("counters", C, "advance", "step %d: counters (%r,%r) expected (%d,%d)" % (ix, mp.progeny_counter, mp.family_counter, pc0 + total, fc0 + ncross), step=ix))
        return False
    state["pc"], state["fc"] = pc0 + total, fc0 + ncross
    # marker metadata carried over
    for a in ("vrnt_chrgrp", "vrnt_phypos", "vrnt_name", "vrnt_genpos", "vrnt_xoprob", "vrnt_hapgrp", "vrnt_hapalt", "vrnt_hapref", "vrnt_mask",
              "vrnt_chrgrp_name", "vrnt_chrgrp_stix", "vrnt_chrgrp_spix", "vrnt_chrgrp_len"):
        x, y = getattr(prog, a), getattr(pg, a)
        if (x is None) != (y is None) or (x is not None and adig(x) != adig(y)):
            V.append(viol("marker-metadata", C, a, "step %d: %s of progeny differs from parents" % (ix, a), step=ix))
            return False
    if prog.ploidy != pg.ploidy:
        V.append(viol("marker-metadata", C, "ploidy", "ploidy differs", step=ix))
        return False
    # provenance
    pm = prog.mat
    for i in range(total):
        x = xconfig[int(exp_fam[i]) - fc0]
        (s0, s1), alt = _sides(pname, x.tolist(), base)
        union = s0 | s1
        if st["nself"] > 0 or isdh:
            cands = [(union, union)]
        else:
            cands = [(s0, s1)] + ([alt] if alt is not None else [])
            if state.get("orient") is not None and alt is not None:
                cands = [cands[state["orient"]]]
        res = None
        for oi, (a0, a1) in enumerate(cands):
            r0 = _check_mosaic(pm[0, i], a0, xo)
            r1 = _check_mosaic(pm[1, i], a1, xo)
            res = r0 or r1
            if res is None:
                if alt is not None and len(cands) == 2 and state.get("orient") is None and s0 != s1:
                    # orientation learned only when this progeny discriminates
                    other = cands[1 - oi]
                    if _check_mosaic(pm[0, i], other[0], xo) or _check_mosaic(pm[1, i], other[1], xo):
                        state["orient"] = oi
                break
        if res is not None:
            V.append(viol(res[0], C, "nself=%d" % min(st["nself"], 1) if res[0] == "foreign-haplotype" else "umode=%s" % sc["rng"]["umode"],
                          "step %d progeny %d (cross %s, nself=%d): %s; copies %s / %s" %
                          (ix, i, x.tolist(), st["nself"], res[1], pm[0, i].tolist(), pm[1, i].tolist()), step=ix))
            return False
        if isdh and not numpy.array_equal(pm[0, i], pm[1, i]):
            V.append(viol("dh-homozygous", C, "copies-differ", "step %d progeny %d: doubled haploid has different copies" % (ix, i), step=ix))
            return False
    state["nprog"] += total
    return True


def _low_step(sc, st, ix, pg, g, V, log, state):
    base = sc["world"]["base"]
    fn = LOW[st["fn"]]
    geno = pg.mat
    xo = pg.vrnt_xoprob
    sel = numpy.array(st["sel"], dtype=int)
    g0 = geno.copy()
    C = st["fn"]
    try:
        if "msel" in st:
            out = fn(geno, geno, sel, numpy.array(st["msel"], dtype=int), xo, g)
        else:
            out = fn(geno, sel, xo, g)
    except Exception as e:
        V.append(viol("mate-completes", C, "raises:%s" % type(e).__name__, "step %d: %s" % (ix, e), step=ix))
        return False
    log.append(["low", ix, adig(out)])
    if not numpy.array_equal(geno, g0):
        V.append(viol("parents-unaltered", C, "geno", "input genotype array modified", step=ix))
        return False
    nsel = len(sel)
    if st["fn"].endswith("meiosis"):
        rows = [(out[i], _labels(base, int(sel[i]))) for i in range(nsel)] if out.shape == (nsel, len(xo)) else None
    elif st["fn"].endswith("dh"):
        rows = None
        if out.shape == (2, nsel, len(xo)):
            rows = [(out[p, i], _labels(base, int(sel[i]))) for i in range(nsel) for p in range(2)]
            if not numpy.array_equal(out[0], out[1]):
                V.append(viol("dh-homozygous", C, "copies-differ", "doubled haploid copies differ", step=ix))
                return False
    else:
        rows = None
        if out.shape == (2, nsel, len(xo)):
            rows = [(out[0, i], _labels(base, int(sel[i]))) for i in range(nsel)] + \
                   [(out[1, i], _labels(base, int(st["msel"][i]))) for i in range(nsel)]
    if rows is None:
        V.append(viol("progeny-count", C, "shape", "output shape %r for %d selections" % (out.shape, nsel), step=ix))
        return False
    if out.dtype != geno.dtype:
        V.append(viol("progeny-dtype", C, "dtype", "dtype %s" % out.dtype, step=ix))
        return False
    for r, allowed in rows:
        res = _check_mosaic(r, allowed, xo)
        if res:
            V.append(viol(res[0], C, "umode=%s" % sc["rng"]["umode"], "step %d: %s; gamete %s" % (ix, res[1], r.tolist()), step=ix))
            return False
    state["nprog"] += nsel
    return True


def execute(sc):
    pg = _founders(sc["world"])
    script = copy.deepcopy(sc["rng"]["script"])
    for r in script:
        if r["mode"] == "at":
            # draws exactly equal to the crossover probability of their column (legal only below 1.0)
            r["values"] = [float(min(v, numpy.nextafter(1.0, 0.0))) for v in pg.vrnt_xoprob.tolist()]
    g = rngseam.make(sc["rng"]["kind"], sc["rng"]["seed"], script)
    V, log, probes = [], [], {}
    state = {"pc": sc.get("progeny_counter", 0), "fc": sc.get("family_counter", 0), "orient": None, "nprog": 0}
    gs0 = rngseam.global_state_digest()
    mp = None
    pname = sc.get("protocol")
    if pname:
        mp = PROT[pname][0](progeny_counter=state["pc"], family_counter=state["fc"], rng=g)
    for ix, st in enumerate(sc["steps"]):
        if st["op"] == "mate":
            if mp is None:
                continue
            ok = _mate_step(sc, st, ix, pg, mp, pname, state, V, log, probes)
        else:
            ok = _low_step(sc, st, ix, pg, g, V, log, state)
        if not ok:
            break
    if rngseam.global_state_digest() != gs0:
        probes["global_stream_touched"] = 1
    if (pg.vrnt_xoprob == 0.0).any():
        probes["xoprob_has_exact_zero"] = 1
    forms = [("a" if isinstance(s.get("nmating"), list) else "s") + ("a" if isinstance(s.get("nprogeny"), list) else "s") + str(s.get("nself"))
             for s in sc["steps"] if s["op"] == "mate"]
    trace = "%s|%s|%s|%s|chr=%d|%s" % (pname or [s["fn"] for s in sc["steps"]], forms, sc["rng"]["umode"], sc["rng"]["kind"],
                                       sc["world"]["nchr"], sc["world"]["base"])
    log.append(["uniform_calls", g.count.get("uniform", 0)])
    return {"violations": V, "log": log, "trace": trace, "nontrivial": state["nprog"] > 0, "faults": dict(g.fired), "probes": probes,
            "sim": {"progeny": state["nprog"], "meioses_calls": g.count.get("uniform", 0)}}
