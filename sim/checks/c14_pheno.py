"""C14 — phenotyping and breeding-value estimation preserve truth and alignment.

G_E_Phenotyping runs under a simulator-owned generator that records every
multivariate-normal request (covariance asked for, values returned).  That turns
the statistical clause into deterministic ones: the covariances *requested* must be
exactly diag(var_env) / diag(var_rep) / diag(var_err), and every record must be
truth + one environment draw + one replicate draw + one error draw (matched
without assuming a call order).  Mean-phenotype breeding values are checked
against row-shuffled tables and permuted / extended genotype taxa.
"""
import copy
import random

import numpy

from .. import compat  # noqa: F401
from ..core import viol, adig
from .. import rngseam, world
from ..world import obj

from pybrops.breed.prot.pt.G_E_Phenotyping import G_E_Phenotyping
from pybrops.breed.prot.bv.MeanPhenotypicBreedingValue import MeanPhenotypicBreedingValue
from pybrops.popgen.gmat.DenseGenotypeMatrix import DenseGenotypeMatrix

PROP = "C14"
RUNS = {"quick": 24000, "thorough": 300000}
WALL = {"quick": 200, "thorough": 2400}
RULE = ("scenario = population (1-8 taxa, diploid or tetraploid, taxa groups present or not), additive or additive+dominance model (1-3 traits, 1-3 fixed effects), protocol used directly or through copy / deepcopy / HDF5 round trip (root or group), nenv 1-4, nrep scalar or per environment (1-3), "
        "variance setting (all zero | no error | general; scalar or per trait, zeros mixed in), optional set_h2/set_H2 target, generator kind; then "
        "phenotype() and MeanPhenotypicBreedingValue.estimate() on the row-shuffled table with genotype taxa permuted, subsetted, repeated and extended by "
        "unphenotyped taxa; distinct = (variance class, nenv, nrep form, h2 step, label presence, genotype-taxa transformation, how the protocol was obtained, model kind, ploidy, fixed effects); non-trivial = table produced")
COMPONENTS = {"real": ["G_E_Phenotyping (phenotype, set_h2, set_H2)", "MeanPhenotypicBreedingValue.estimate", "DenseAdditiveLinearGenomicModel.gegv/var_A/var_G", "pandas groupby/mean"],
              "stub": ["generator subclass recording multivariate_normal requests (sim.rngseam)"]}
ASSUMPTIONS = ["NumPy's multivariate_normal is trusted to realise the covariance it is asked for: convergence of realised variances is decided by checking the requested covariances exactly and that the recorded draws are what the records contain",
               "floating-point sums are compared to 16 eps of the magnitudes involved; means to 1e-12 relative",
               "heritability targets in (0,1]; populations without additive variance are skipped for the heritability clause"]
EPS = numpy.finfo(float).eps


def _var(R, ntr, allow_zero=True):
    if R.random() < 0.5:
        return R.choice([0.0, 0.5, 1.0, 4.0]) if allow_zero else R.choice([0.5, 1.0, 4.0])
    return [R.choice([0.0, 0.25, 1.0, 9.0]) if allow_zero else R.choice([0.25, 1.0, 9.0]) for _ in range(ntr)]


def generate(R, tier):
    ntr = R.randint(1, 3)
    nenv = R.randint(1, 4)
    vclass = R.choice(["zero", "noerr", "general", "general"])
    if vclass == "zero":
        ve = vr = vx = 0.0
    elif vclass == "noerr":
        ve, vr, vx = _var(R, ntr), _var(R, ntr), 0.0
    else:
        ve, vr, vx = _var(R, ntr), _var(R, ntr), _var(R, ntr)
    return {"world": {"seed": R.randrange(1 << 30), "ntaxa": R.randint(1, 8), "nvrnt": R.randint(1, 10), "ntrait": ntr, "taxa_grp": R.random() < 0.7, "nfixed": R.choice([1, 1, 1, 2, 3]),
                      "model": R.choice(["additive", "additive", "dominance"]), "ploidy": R.choice([2, 2, 4])},
            "nenv": nenv, "nrep": (R.randint(1, 3) if R.random() < 0.5 else [R.randint(1, 3) for _ in range(nenv)]),
            "var_env": ve, "var_rep": vr, "var_err": vx, "vclass": vclass,
            "h2": (None if R.random() < 0.6 else {"which": R.choice(["h2", "H2"]), "value": R.choice([1.0, 0.5, 0.25, 0.9, R.random() * 0.98 + 0.01])}),
            "rng": {"kind": R.choice(["Generator", "Generator", "RandomState"]), "seed": R.randrange(1 << 30)},
            "est": {"shuffle": R.randrange(1 << 30), "perm": R.randrange(1 << 30), "drop": R.randint(0, 2), "extra": R.randint(0, 2), "unphased": R.random() < 0.5,
                    "dup": R.choice([0, 0, 0, 1, 2])},
            "carry": R.choice([None, None, None, "copy", "deepcopy", "hdf5-root", "hdf5-group"])}


def shrink(sc):
    w = sc["world"]
    for k in ("ntaxa", "nvrnt", "ntrait"):
        if w[k] > 1:
            c = copy.deepcopy(sc)
            c["world"][k] -= 1
            if k == "ntrait":
                for f in ("var_env", "var_rep", "var_err"):
                    if isinstance(c[f], list):
                        c[f] = c[f][:-1]
            yield c
    if sc["nenv"] > 1:
        c = copy.deepcopy(sc)
        c["nenv"] -= 1
        if isinstance(c["nrep"], list):
            c["nrep"] = c["nrep"][:-1]
        yield c
    if sc["h2"]:
        c = copy.deepcopy(sc)
        c["h2"] = None
        yield c
    if sc.get("carry"):
        c = copy.deepcopy(sc)
        c["carry"] = None
        yield c
    for k in ("drop", "extra", "dup"):
        if sc["est"].get(k):
            c = copy.deepcopy(sc)
            c["est"][k] = 0
            yield c


def _asvar(v, ntr):
    return numpy.full(ntr, float(v)) if not isinstance(v, list) else numpy.array(v, dtype=float)


def execute(sc):
    w = sc["world"]
    R = random.Random(w["seed"])
    nt, ntr = w["ntaxa"], w["ntrait"]
    pg = world.pgmat(R, nt, w["nvrnt"], 1, taxa_grp=w["taxa_grp"], names=["L%d" % i for i in range(nt)])
    gm = world.algmod(R, w["nvrnt"], ntr, nfixed=w.get("nfixed", 1))
    u_d = None
    if w.get("ploidy", 2) == 4:
        # autotetraploid population: two more chromosome copies per individual
        extra = numpy.array([[[R.choice((0, 1)) for _ in range(w["nvrnt"])] for _ in range(nt)] for _ in range(2)], dtype="int8")
        pg = type(pg)(numpy.concatenate([numpy.asarray(pg.mat), extra], axis=0), taxa=pg.taxa, taxa_grp=pg.taxa_grp, vrnt_chrgrp=pg.vrnt_chrgrp,
                      vrnt_phypos=pg.vrnt_phypos, vrnt_name=pg.vrnt_name, vrnt_genpos=pg.vrnt_genpos, vrnt_xoprob=pg.vrnt_xoprob, ploidy=4)
    if w.get("model") == "dominance":
        from pybrops.model.gmod.DenseAdditiveDominanceLinearGenomicModel import DenseAdditiveDominanceLinearGenomicModel
        u_d = numpy.array([[R.choice((-1.0, -0.25, 0.0, 0.5, 2.0)) for _ in range(ntr)] for _ in range(w["nvrnt"])], dtype=float)
        gm = DenseAdditiveDominanceLinearGenomicModel(beta=gm.beta, u_misc=None, u_a=gm.u_a, u_d=u_d, trait=gm.trait, model_name="sim", hyperparams=None)
    g = rngseam.make(sc["rng"]["kind"], sc["rng"]["seed"])
    g.mvn_record = []
    V, log, faults, probes = [], [], {}, {}
    C = "G_E_Phenotyping"
    nrep = sc["nrep"] if isinstance(sc["nrep"], int) else numpy.array(sc["nrep"], dtype=int)
    nrepv = numpy.broadcast_to(nrep, (sc["nenv"],)).astype(int)
    kw = {k: (sc[k] if not isinstance(sc[k], list) else numpy.array(sc[k], dtype=float)) for k in ("var_env", "var_rep", "var_err")}
    try:
        pt = G_E_Phenotyping(gm, nenv=sc["nenv"], nrep=nrep, rng=g, **kw)
    except Exception as e:
        V.append(viol("phenotyping-completes", C + ".__init__", "raises:%s" % type(e).__name__, "%s: %s" % (type(e).__name__, e)))
        return _out(sc, V, log, faults, probes, False)
    # ---- heritability algebra
    if sc["h2"]:
        h = sc["h2"]["value"]
        try:
            if sc["h2"]["which"] == "h2":
                pt.set_h2(h, pg)
                vg = numpy.asarray(gm.var_A(pg), dtype=float)
            else:
                pt.set_H2(h, pg)
                vg = numpy.asarray(gm.var_G(pg), dtype=float)
        except Exception as e:
            V.append(viol("heritability-fixes-error-variance", C + ".set_" + sc["h2"]["which"], "raises:%s" % type(e).__name__, "%s: %s" % (type(e).__name__, e)))
            return _out(sc, V, log, faults, probes, False)
        ve = numpy.broadcast_to(numpy.asarray(pt.var_err, dtype=float), (ntr,))
        faults["heritability_set"] = 1
        # genetic variance per trait, computed here from the predicted values (population variance), not taken from the model
        gv = numpy.asarray((gm.gebv(pg) if sc["h2"]["which"] == "h2" else gm.gegv(pg)).unscale(), dtype=float)
        vg = gv.var(0)
        for t in range(ntr):
            if vg[t] > 1e-12 * (1.0 + float(numpy.abs(gv[:, t]).max()) ** 2):
                ratio = vg[t] / (vg[t] + ve[t])
                if abs(ratio - h) > 1e-9:
                    V.append(viol("heritability-fixes-error-variance", C + ".set_" + sc["h2"]["which"], "ratio",
                                  "target %r: genetic variance %r, error variance %r give %r" % (h, float(vg[t]), float(ve[t]), float(ratio))))
                    return _out(sc, V, log, faults, probes, False)
            else:
                probes["no_genetic_variance"] = 1
    # ---- the protocol that runs the trial may be a copy of the configured one or have been stored and read back
    carry = sc.get("carry")
    if carry:
        want = {k: numpy.array(getattr(pt, k), dtype=float, copy=True) for k in ("var_env", "var_rep", "var_err")}
        want["nenv"], want["nrep"] = int(pt.nenv), numpy.array(pt.nrep, copy=True)
        try:
            if carry == "copy":
                pt2 = copy.copy(pt)
            elif carry == "deepcopy":
                pt2 = copy.deepcopy(pt)
            else:
                import io
                import h5py
                bio = io.BytesIO()
                grp = None if carry == "hdf5-root" else "trial/protocols/pt"
                with h5py.File(bio, "w") as h5:
                    pt.to_hdf5(h5, grp)
                with h5py.File(bio, "r") as h5:
                    pt2 = G_E_Phenotyping.from_hdf5(h5, grp, gpmod=gm)
            pt2.rng = g
        except Exception as e:
            V.append(viol("phenotyping-completes", C + "." + carry, "raises:%s" % type(e).__name__, "%s: %s" % (type(e).__name__, e)))
            return _out(sc, V, log, faults, probes, False)
        faults["protocol_carried_" + carry.split("-")[0]] = 1
        for k, v in want.items():
            got = numpy.asarray(getattr(pt2, k))
            if got.shape != numpy.asarray(v).shape or not numpy.array_equal(got, v):
                V.append(viol("requested-variances-in-force", C + "." + carry, "field=" + k,
                              "the protocol obtained through %s has %s = %s, the configured one %s" % (carry, k, got.tolist(), numpy.asarray(v).tolist())))
                return _out(sc, V, log, faults, probes, False)
        pt = pt2
    var_env, var_rep, var_err = (numpy.asarray(getattr(pt, k), dtype=float) for k in ("var_env", "var_rep", "var_err"))
    truth = numpy.asarray(gm.gegv(pg).unscale(), dtype=float)
    # the true genotypic value, from the allele calls: intercept (first fixed effect plus the cell mean of the others) + dosage . effects
    beta = numpy.asarray(gm.beta, dtype=float)
    dose = numpy.asarray(pg.mat).astype(float).sum(0)
    truth_ref = dose @ numpy.asarray(gm.u_a, dtype=float) + beta[0] + (beta[1:].sum(0) / beta.shape[0] if beta.shape[0] > 1 else 0.0)
    if u_d is not None:
        # dominance deviations apply to every heterozygous genotype (neither nulliplex nor fully homozygous for allele 1)
        truth_ref = truth_ref + ((dose != 0) & (dose != float(w.get("ploidy", 2)))).astype(float) @ u_d
        faults["dominance_model"] = 1
    if w.get("ploidy", 2) != 2:
        faults["polyploid_population"] = 1
    if truth.shape != truth_ref.shape or not numpy.all(numpy.isfinite(truth)) or numpy.any(numpy.abs(truth - truth_ref) > 64 * 2.3e-16 * (numpy.abs(dose) @ numpy.abs(numpy.asarray(gm.u_a, dtype=float)) + numpy.abs(beta).sum(0) + (numpy.abs(u_d).sum(0) if u_d is not None else 0.0) + 1.0)):
        V.append(viol("zero-noise-equals-truth", type(gm).__name__ + ".gegv", "genotypic-value",
                      "genotypic values reported by the model differ from intercept + dosage x effects computed from the allele calls (max deviation %r)" %
                      (float(numpy.abs(truth - truth_ref).max()) if truth.shape == truth_ref.shape else None)))
        return _out(sc, V, log, faults, probes, False)
    allzero = not (numpy.any(var_env != 0) or numpy.any(var_rep != 0) or numpy.any(var_err != 0))
    if allzero:
        faults["all_variances_zero"] = 1
    pgd = adig(pg.mat)
    try:
        df = pt.phenotype(pg)
    except Exception as e:
        V.append(viol("phenotyping-completes", C + ".phenotype", "raises:%s" % type(e).__name__, "%s: %s" % (type(e).__name__, e)))
        return _out(sc, V, log, faults, probes, False)
    log.append(["pheno", len(df), [adig(df[c].to_numpy()) for c in df.columns]])
    if adig(pg.mat) != pgd:
        V.append(viol("inputs-unchanged", C + ".phenotype", "pgmat", "genotypes modified by phenotype()"))
        return _out(sc, V, log, faults, probes, True)
    traits = [str(t) for t in gm.trait.tolist()]
    nblocks = int(nrepv.sum())
    # ---- one record per (taxon, env, rep) with the taxon's labels
    if len(df) != nt * nblocks:
        V.append(viol("one-record-per-taxon-env-rep", C + ".phenotype", "count", "%d records for %d taxa x %d (env,rep) blocks" % (len(df), nt, nblocks)))
        return _out(sc, V, log, faults, probes, True)
    names = [str(x) for x in pg.taxa.tolist()]
    grp = None if pg.taxa_grp is None else dict(zip(names, [int(x) for x in pg.taxa_grp.tolist()]))
    blocks = {}
    for rix in range(len(df)):
        key = (int(df["env"].iloc[rix]), int(df["rep"].iloc[rix]))
        blocks.setdefault(key, []).append(rix)
    want = {(e + 1, r + 1) for e in range(sc["nenv"]) for r in range(int(nrepv[e]))}
    if set(blocks) != want:
        V.append(viol("one-record-per-taxon-env-rep", C + ".phenotype", "blocks", "(env,rep) combinations %s, expected %s" % (sorted(blocks), sorted(want))))
        return _out(sc, V, log, faults, probes, True)
    D = {}
    for key, rows in blocks.items():
        tn = [str(df["taxa"].iloc[r]) for r in rows]
        if sorted(tn) != sorted(names):
            V.append(viol("one-record-per-taxon-env-rep", C + ".phenotype", "taxa", "block %s holds taxa %s, population is %s" % (key, tn, names)))
            return _out(sc, V, log, faults, probes, True)
        if grp is not None and any(int(df["taxa_grp"].iloc[r]) != grp[str(df["taxa"].iloc[r])] for r in rows):
            V.append(viol("records-carry-taxon-labels", C + ".phenotype", "taxa_grp", "block %s: group label does not belong to the taxon named in the record" % (key,)))
            return _out(sc, V, log, faults, probes, True)
        vals = numpy.array([[float(df[t].iloc[r]) for t in traits] for r in rows])
        order = [names.index(x) for x in tn]
        dev = numpy.empty((nt, ntr))
        dev[order] = vals - truth[order]
        if allzero and numpy.any(vals != truth[order]):
            V.append(viol("zero-noise-equals-truth", C + ".phenotype", "values", "all variances zero but block %s differs from the true genotypic values" % (key,)))
            return _out(sc, V, log, faults, probes, True)
        D[key] = dev
    rec = g.mvn_record
    vec = [(c, o) for c, o in rec if o.ndim == 1]
    mats = [(c, o) for c, o in rec if o.ndim == 2]
    mag = numpy.abs(truth).max() + sum(numpy.abs(o).max() for _, o in rec if o.size) + 1.0
    tol = 32 * EPS * mag
    mats_ok = len(mats) == nblocks and all(o.shape == (nt, ntr) for _, o in mats)
    vecs_ok = len(vec) == sc["nenv"] + nblocks and all(o.shape == (ntr,) for _, o in vec)
    # ---- requested covariances are exactly the configured variances
    if mats_ok:
        for c, o in mats:
            if not numpy.array_equal(c, numpy.diag(var_err)):
                V.append(viol("requested-variances", C + ".phenotype", "var_err", "error draws requested with covariance %s, configured error variance %s" % (c.tolist(), var_err.tolist())))
                return _out(sc, V, log, faults, probes, True)
    if vecs_ok:
        ok_env = sum(1 for c, _ in vec if numpy.array_equal(c, numpy.diag(var_env)))
        ok_rep = sum(1 for c, _ in vec if numpy.array_equal(c, numpy.diag(var_rep)))
        same = numpy.array_equal(var_env, var_rep)
        if (same and ok_env != len(vec)) or (not same and (ok_env != sc["nenv"] or ok_rep != nblocks)):
            V.append(viol("requested-variances", C + ".phenotype", "var_env/var_rep", "environment/replicate draws requested with covariances %s; configured %s / %s" %
                          ([c.diagonal().tolist() for c, _ in vec], var_env.tolist(), var_rep.tolist())))
            return _out(sc, V, log, faults, probes, True)
    # ---- every record = truth + a constant per (env, rep) block + one error draw (no call order assumed)
    consts = None
    if mats_ok:
        used = set()
        consts = {}
        for key in sorted(D):
            hit = None
            for k, (_, E) in enumerate(mats):
                if k in used:
                    continue
                c = D[key] - E
                if numpy.all(numpy.abs(c - c[0][None, :]) <= tol):
                    hit = k
                    consts[key] = c[0]
                    break
            if hit is None:
                V.append(viol("noise-structure", C + ".phenotype", "error-term", "block %s: deviation from truth is not one of the recorded error draws plus a constant per trait" % (key,)))
                return _out(sc, V, log, faults, probes, True)
            used.add(hit)
    elif not numpy.any(var_err != 0):
        consts = {}
        for key in sorted(D):
            c = D[key]
            if not numpy.all(numpy.abs(c - c[0][None, :]) <= tol):
                V.append(viol("noise-structure", C + ".phenotype", "error-term", "block %s: no error variance, yet taxa deviate differently from their true values" % (key,)))
                return _out(sc, V, log, faults, probes, True)
            consts[key] = c[0]
    if consts is not None and vecs_ok:
        probes["draw_structure_recognised"] = 1
        vecs = [o for _, o in vec]
        for e in range(1, sc["nenv"] + 1):
            keys = [k for k in consts if k[0] == e]
            found = False
            for ei, ev in enumerate(vecs):
                rest = [consts[k] - ev for k in keys]
                pool = [v for j, v in enumerate(vecs) if j != ei]
                okall = True
                taken = set()
                for rvec in rest:
                    m = None
                    for j, v in enumerate(pool):
                        if j not in taken and numpy.all(numpy.abs(rvec - v) <= tol):
                            m = j
                            break
                    if m is None:
                        okall = False
                        break
                    taken.add(m)
                if okall:
                    found = True
                    break
            if not found:
                V.append(viol("noise-structure", C + ".phenotype", "env-rep-terms", "environment %d: block constants are not one recorded environment draw plus one recorded replicate draw each" % e))
                return _out(sc, V, log, faults, probes, True)
    elif consts is not None:
        # the draw structure is not the one-draw-per-effect layout: fall back to coincidences that have probability
        # zero when every replicate (environment) receives its own effect
        probes["draw_structure_not_recognised"] = 1
        keys = sorted(consts)
        for a in range(len(keys)):
            for b in range(a + 1, len(keys)):
                ka, kb = keys[a], keys[b]
                for t in range(ntr):
                    indep = var_rep[t] > 0 or (ka[0] != kb[0] and var_env[t] > 0)
                    if indep and consts[ka][t] == consts[kb][t]:
                        V.append(viol("noise-structure", C + ".phenotype", "shared-effect", "blocks %s and %s received exactly the same environment+replicate effect on trait %d although their variances are positive" % (ka, kb, t)))
                        return _out(sc, V, log, faults, probes, True)
    else:
        probes["draw_structure_not_recognised"] = 1
    # ---- mean-phenotype breeding values
    est = sc["est"]
    R2 = random.Random(est["shuffle"])
    idx = list(range(len(df)))
    R2.shuffle(idx)
    dfs = df.iloc[idx].reset_index(drop=True)
    R3 = random.Random(est["perm"])
    keep = list(range(nt))
    R3.shuffle(keep)
    keep = keep[:max(1, nt - est["drop"])] if nt > 1 else keep
    if est.get("dup"):
        # a genotype matrix may list an individual more than once (e.g. select_taxa with repeated indices)
        keep = keep + [R3.choice(keep) for _ in range(est["dup"])]
        R3.shuffle(keep)
        faults["taxon_listed_twice_in_genotypes"] = 1
    gt = pg.select_taxa(keep)
    extra = ["X%d" % i for i in range(est["extra"])]
    gtaxa = [names[i] for i in keep] + extra
    ggrp = None if pg.taxa_grp is None else numpy.concatenate([pg.taxa_grp[keep], numpy.full(len(extra), 9, dtype=int)])
    gmat = numpy.concatenate([numpy.asarray(pg.mat)[:, keep, :], numpy.zeros((numpy.asarray(pg.mat).shape[0], len(extra), pg.nvrnt), dtype="int8")], axis=1)
    if est["unphased"]:
        gobj = DenseGenotypeMatrix(gmat.sum(0, dtype="int8"), taxa=obj(gtaxa), taxa_grp=ggrp, vrnt_chrgrp=pg.vrnt_chrgrp, vrnt_phypos=pg.vrnt_phypos, ploidy=int(pg.ploidy))
    else:
        gobj = type(pg)(gmat, taxa=obj(gtaxa), taxa_grp=ggrp, vrnt_chrgrp=pg.vrnt_chrgrp, vrnt_phypos=pg.vrnt_phypos, ploidy=int(pg.ploidy))
    if extra:
        faults["unphenotyped_taxa_in_genotypes"] = 1
    if est["drop"] and nt > 1:
        faults["phenotyped_taxa_missing_from_genotypes"] = 1
    bvp = MeanPhenotypicBreedingValue("taxa", "taxa_grp" if pg.taxa_grp is not None else None, traits)
    CE = "MeanPhenotypicBreedingValue.estimate"
    try:
        bv1 = bvp.estimate(dfs, gobj)
        bv0 = bvp.estimate(df, gobj)
    except Exception as e:
        V.append(viol("bv-estimation-completes", CE, "raises:%s" % type(e).__name__, "%s: %s" % (type(e).__name__, e)))
        return _out(sc, V, log, faults, probes, True)
    u1, u0 = numpy.asarray(bv1.unscale(), dtype=float), numpy.asarray(bv0.unscale(), dtype=float)
    if [str(x) for x in bv1.taxa.tolist()] != gtaxa:
        V.append(viol("bv-aligned-to-genotypes", CE, "taxa-order", "estimates listed for %s, genotype matrix has %s" % (bv1.taxa.tolist(), gtaxa)))
        return _out(sc, V, log, faults, probes, True)
    if [str(x) for x in bv1.trait.tolist()] != traits:
        V.append(viol("bv-aligned-to-genotypes", CE, "trait-order", "traits %s, requested %s" % (bv1.trait.tolist(), traits)))
        return _out(sc, V, log, faults, probes, True)
    vals = {nme: numpy.array([[float(df[t].iloc[r]) for t in traits] for r in range(len(df)) if str(df["taxa"].iloc[r]) == nme]) for nme in names}
    scale = numpy.abs(df[traits].to_numpy(dtype=float)).max() + 1.0
    for i, nme in enumerate(gtaxa):
        if nme in vals:
            m = vals[nme].mean(0)
            if numpy.any(numpy.isnan(u1[i])) or numpy.any(numpy.abs(u1[i] - m) > 1e-12 * scale * 8):
                V.append(viol("bv-is-mean-of-records", CE, "value", "taxon %s: estimate %s, arithmetic mean of its %d records %s" % (nme, u1[i].tolist(), len(vals[nme]), m.tolist())))
                return _out(sc, V, log, faults, probes, True)
        elif not numpy.all(numpy.isnan(u1[i])):
            V.append(viol("unphenotyped-taxa-missing", CE, "value", "taxon %s has no records but estimate %s" % (nme, u1[i].tolist())))
            return _out(sc, V, log, faults, probes, True)
    if u0.shape != u1.shape or not numpy.allclose(u0, u1, rtol=1e-12, atol=1e-12 * scale, equal_nan=True):
        V.append(viol("bv-row-order-invariant", CE, "shuffle", "estimates change when the rows of the phenotype table are shuffled"))
        return _out(sc, V, log, faults, probes, True)
    # without a genotype matrix the estimates cover the phenotyped taxa; the result must not depend on the row order either
    try:
        b0, b1 = bvp.estimate(df, None), bvp.estimate(dfs, None)
    except Exception as e:
        V.append(viol("bv-estimation-completes", CE, "raises:%s|no-genotypes" % type(e).__name__, "%s: %s" % (type(e).__name__, e)))
        return _out(sc, V, log, faults, probes, True)
    t0, t1 = [str(x) for x in b0.taxa.tolist()], [str(x) for x in b1.taxa.tolist()]
    v0, v1 = numpy.asarray(b0.unscale(), dtype=float), numpy.asarray(b1.unscale(), dtype=float)
    if t0 != t1 or v0.shape != v1.shape or not numpy.allclose(v0, v1, rtol=1e-12, atol=1e-12 * scale, equal_nan=True):
        V.append(viol("bv-row-order-invariant", CE, "shuffle|no-genotypes", "without a genotype matrix the estimates are listed as %s for the table and as %s for the same table with shuffled rows" % (t0, t1)))
        return _out(sc, V, log, faults, probes, True)
    if sorted(t0) != sorted(set(names)):
        V.append(viol("bv-is-mean-of-records", CE, "taxa|no-genotypes", "estimates listed for %s, phenotyped taxa are %s" % (t0, sorted(set(names)))))
        return _out(sc, V, log, faults, probes, True)
    for i, nme in enumerate(t0):
        m = vals[nme].mean(0)
        if numpy.any(numpy.isnan(v0[i])) or numpy.any(numpy.abs(v0[i] - m) > 1e-12 * scale * 8):
            V.append(viol("bv-is-mean-of-records", CE, "value|no-genotypes", "taxon %s: estimate %s, mean of its records %s" % (nme, v0[i].tolist(), m.tolist())))
            return _out(sc, V, log, faults, probes, True)
    faults["estimated_without_genotype_matrix"] = 1
    log.append(["bv", adig(u1)])
    return _out(sc, V, log, faults, probes, True)


def _out(sc, V, log, faults, probes, ran):
    f = dict(faults)
    f["variance_class_" + sc["vclass"]] = 1
    trace = "%s|env%d|rep%s|h2=%s|grp=%s|drop%d|extra%d|%s|%s|%s|x%s|f%s|dup%s" % (sc["vclass"], sc["nenv"], "a" if isinstance(sc["nrep"], list) else "s", sc["h2"]["which"] if sc["h2"] else None,
                                                              sc["world"]["taxa_grp"], sc["est"]["drop"], sc["est"]["extra"], sc["rng"]["kind"], sc.get("carry"), sc["world"].get("model"),
                                                              sc["world"].get("ploidy"), sc["world"].get("nfixed"), sc["est"].get("dup"))
    return {"violations": V, "log": log, "trace": trace, "nontrivial": ran, "faults": f, "probes": probes,
            "sim": {"records": (sc["world"]["ntaxa"] * (sc["nenv"] * sc["nrep"] if isinstance(sc["nrep"], int) else sum(sc["nrep"]))) if ran else 0}}
