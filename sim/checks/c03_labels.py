"""C03 — labels stay attached to their data under every matrix operation history.

One generic history machine (sim/matmodel.py) drives 25 labelled matrix classes
through random histories of structural operations on every labelled axis, each
operation executed in all of its forms (axis-specific / axis-generic, mutating /
non-mutating) on clones of the current object, against an entity-tracking list
model.  "Unusual but legal" conditions injected: duplicated labels, absent optional
label arrays, single rows/columns, empty selections, operations on grouped
matrices, negative indices and axes, boolean masks, groups of size one.
"""
import copy
import random

import numpy

from .. import compat  # noqa: F401
from ..core import viol
from .. import matmodel as mm
from pybrops.breed.prot.gt.DenseUnphasedGenotyping import DenseUnphasedGenotyping
from pybrops.breed.prot.gt.DenseMaskedPhasedGenotyping import DenseMaskedPhasedGenotyping
from pybrops.breed.prot.gt.DenseMaskedUnphasedGenotyping import DenseMaskedUnphasedGenotyping
from ..snapshot import snap, diff

PROP = "C03"
RUNS = {"quick": 80000, "thorough": 2000000}
WALL = {"quick": 200, "thorough": 2400}
RULE = ("scenario = one of 25 labelled matrix classes, a label configuration (which optional label arrays exist, unique or duplicated "
        "names, initial sizes 1-5 per axis, initially grouped or not) and a history of <= 12 structural operations (select, delete/remove, "
        "insert/incorp, adjoin/append, concat, reorder, lexsort, sort, group, ungroup, is_grouped) on any labelled axis with argument forms "
        "int / negative int / slice / list / ndarray / boolean mask / empty; every operation runs in each of its specific/generic and "
        "mutating/non-mutating forms; distinct = (class, op-kind x axis sequence, argument forms, label configuration class); non-trivial = "
        "at least one operation accepted by the class")
COMPONENTS = {"real": ["25 pybrops labelled matrix classes (core.mat, popgen.gmat, popgen.bvmat, popgen.cmat, model.vmat): all structural methods",
                       "DenseUnphasedGenotyping / DenseMaskedPhasedGenotyping / DenseMaskedUnphasedGenotyping (genotype())"],
              "stub": []}
ASSUMPTIONS = ["an operation that raises in every form tried is recorded as rejected (C03 does not say every argument is accepted) provided receiver and operands are unchanged",
               "operands carry the same set of optional label arrays as the receiver",
               "square-taxa classes are exercised with the operations that keep them square (select, delete/remove, reorder, sort, group); insert/adjoin/concat along taxa are outside the workload",
               "clones of the current object are made with copy.deepcopy (itself checked by C16)",
               "breeding-value classes compare data through unscale() with rtol 1e-9 (their exact round-trip is C15)"]

OPS_ALL = ["select", "delete", "insert", "adjoin", "concat", "reorder", "lexsort", "sort", "group", "ungroup", "is_grouped"]
OPS_PHASE = ["select", "delete", "insert", "adjoin", "concat"]
MUT = {"delete": "remove", "insert": "incorp", "adjoin": "append"}


def generate(R, tier):
    key = R.choice(sorted(mm.ADAPT))
    kind = mm.ADAPT[key][2]
    axes = mm.logical_axes(key)
    present = {}
    for a in axes:
        for name in mm.LABELS[a]:
            present[name] = R.random() < 0.75
    unique = kind != "float" or R.random() < 0.5
    if kind != "float":
        present["taxa"] = True
        present["vrnt_name"] = True
        present["trait"] = True
    sizes = {a: R.choice([1, 1, 2, 3, 3, 4, 5]) for a in axes}
    if mm.ADAPT[key][1].count("taxa") >= 3:
        sizes["taxa"] = min(sizes["taxa"], 4)
    if "phase" in sizes:
        sizes["phase"] = 2
    if "aux" in sizes:
        sizes["aux"] = R.randint(1, 3)
    steps = []
    opaxes = [a for a in axes if a != "aux" and not (a == "phase" and kind == "int8")]   # int8 phase entities cannot be identified
    for _ in range(R.randint(1, 12)):
        a = R.choice(opaxes)
        if a == "phase":
            op = R.choice(OPS_PHASE)
        elif a == "taxa" and mm.is_square(key):
            op = R.choice(["select", "delete", "reorder", "lexsort", "sort", "group", "ungroup", "is_grouped"])
        else:
            op = R.choice(OPS_ALL)
        steps.append({"op": op, "axis": a, "argform": R.choice(["int", "negint", "npint", "slice", "list", "ndarray", "mask", "empty"]), "unnamed": R.random() < 0.15, "override": R.random() < 0.2,
                      "a": [R.randrange(1000) for _ in range(6)], "k": R.choice([1, 1, 2, 3]), "pick": R.randrange(4),
                      "negaxis": R.random() < 0.25, "first": R.random() < 0.7, "single": R.random() < 0.15})
    if key == "DensePhasedGenotypeMatrix":
        for _ in range(R.choice([0, 1, 1, 2])):
            steps.insert(R.randint(0, len(steps)), {"op": "genotype", "axis": "vrnt", "prot": R.choice(["unphased", "masked_phased", "masked_phased_inv", "masked_unphased", "masked_unphased_inv"]),
                                                    "argform": "-", "a": [0] * 6, "k": 1, "pick": 0, "negaxis": False, "first": True})
    return {"key": key, "cfg": {"present": present, "unique_names": unique}, "sizes": sizes, "grouped0": R.random() < 0.4,
            "lseed": R.randrange(1 << 30), "steps": steps}


def shrink(sc):
    for a, n in sc["sizes"].items():
        if n > 1 and a != "phase":
            c = copy.deepcopy(sc)
            c["sizes"][a] = n - 1
            yield c
    if sc["grouped0"]:
        c = copy.deepcopy(sc)
        c["grouped0"] = False
        yield c
    for name, p in sc["cfg"]["present"].items():
        if p and name not in ("taxa", "vrnt_name", "trait", "taxa_grp", "vrnt_chrgrp", "vrnt_phypos"):
            c = copy.deepcopy(sc)
            c["cfg"]["present"][name] = False
            yield c
    for i, st in enumerate(sc["steps"]):
        if st["k"] > 1:
            c = copy.deepcopy(sc)
            c["steps"][i]["k"] = 1
            yield c
        if st["negaxis"]:
            c = copy.deepcopy(sc)
            c["steps"][i]["negaxis"] = False
            yield c
        if st["argform"] not in ("list", "int"):
            c = copy.deepcopy(sc)
            c["steps"][i]["argform"] = "list"
            yield c


# ---------------------------------------------------------------------------- helpers
def _state(o, kind):
    return snap(o, skip=("spline",))


def _same(a, b, kind):
    """Compare two result objects: '' if same state else description."""
    sa, sb = _state(a, kind), _state(b, kind)
    if kind != "bv":
        d = diff(sa, sb)
        return "" if not d else "%s: %s vs %s" % (d[0][0], str(d[0][1])[:60], str(d[0][2])[:60])
    for s in (sa, sb):
        for f in ("mat", "location", "scale"):
            s["attrs"].pop(f, None)
    d = diff(sa, sb)
    if d:
        return "%s: %s vs %s" % (d[0][0], str(d[0][1])[:60], str(d[0][2])[:60])
    try:
        ua = a.unscale()
    except Exception as e:
        ua = "unscale() raises %s" % type(e).__name__
    try:
        ub = b.unscale()
    except Exception as e:
        ub = "unscale() raises %s" % type(e).__name__
    if isinstance(ua, str) or isinstance(ub, str):
        return "" if (isinstance(ua, str) and isinstance(ub, str)) else "unscale(): %s vs %s" % (ua if isinstance(ua, str) else "ok", ub if isinstance(ub, str) else "ok")
    if ua.shape != ub.shape or not numpy.allclose(ua, ub, rtol=1e-9, atol=1e-9, equal_nan=True):
        return "unscale() differs"
    return ""


def _index_spec(st, n, op):
    """Resolve the step's raw numbers into an index argument for the current axis length n."""
    af = st["argform"]
    a = st["a"]
    if n == 0:
        return ("list", [])
    if af == "empty":
        return ("list", [])
    if af == "int":
        return ("int", a[0] % n)
    if af == "npint":
        return ("npint", a[0] % n)
    if af == "negint":
        return ("int", -(a[0] % n) - 1)
    if af == "slice":
        lo, hi = sorted((a[0] % (n + 1), a[1] % (n + 1)))
        step = 1 if a[2] % 3 else 2
        return ("slice", [lo, hi, step])
    if af == "mask":
        return ("mask", [bool((a[0] >> i) & 1) for i in range(n)])
    k = min(st["k"], n)
    vals = [a[i] % n for i in range(k)]
    if op != "select":
        vals = sorted(set(vals))
    else:
        vals = [v - n if (a[5] >> i) & 1 else v for i, v in enumerate(vals)]     # some negative equivalents
    return (af if af in ("list", "ndarray") else "list", vals)


def _sorted_either(keys):
    """Non-decreasing under some precedence of the sort keys (C03 does not fix which key is primary)."""
    fwd = all(keys[i] <= keys[i + 1] for i in range(len(keys) - 1))
    rev = [tuple(reversed(k)) for k in keys]
    return fwd or all(rev[i] <= rev[i + 1] for i in range(len(rev) - 1))


def execute(sc):
    key = sc["key"]
    cls, lay, kind = mm.ADAPT[key]
    R = random.Random(sc["lseed"])
    model = mm.Model(key, sc["cfg"])
    for a in mm.logical_axes(key):
        model.ids[a] = model.fresh(R, a, sc["sizes"][a])
    V, log, faults, probes = [], [], {}, {}
    accepted = 0
    kinds = []

    def fault(k):
        faults[k] = faults.get(k, 0) + 1

    try:
        cur = model.build()
        bystanders = []
    except Exception as e:
        # a label configuration the constructor refuses is not a history to explore
        return {"violations": [], "log": [["ctor-rejected", type(e).__name__]], "trace": key + "|ctor-rejected", "nontrivial": False,
                "faults": {}, "probes": {"constructor_rejected": 1}, "sim": {}}
    if sc["grouped0"]:
        for a in ("taxa", "vrnt"):
            if a in lay:
                try:
                    getattr(cur, "group_" + a)()
                    fault("initially_grouped")
                except Exception:
                    pass
        ids0, pr = mm.decode(key, cur, model)
        if ids0:
            for a, l in ids0.items():
                if l is not None:
                    model.ids[a] = l
    if not sc["cfg"]["unique_names"]:
        fault("duplicated_labels")
    if not all(sc["cfg"]["present"].values()):
        fault("absent_optional_label_array")

    def verify(o, where, ix, expect_ids=None, sorted_axis=None):
        """Full observation of object ``o`` against the model; appends violations."""
        C = where if "." in where else "%s.%s" % (key, where)
        ids, probs = mm.decode(key, o, model)
        if ids is None:
            V.append(viol("data-follows-entity", C, "undecodable", "step %d: %s" % (ix, probs[0]), step=ix))
            return None
        if probs:
            V.append(viol("data-follows-entity", C, "cells", "step %d: %s" % (ix, probs[0]), step=ix))
            return None
        if any(v is None for v in ids.values()):
            # an axis was emptied: the remaining entities of the other axes can no longer be identified
            # from the data, so the history ends here (nothing remains whose labels could detach)
            probes["history_ended_on_empty_matrix"] = 1
            return "stop"
        if expect_ids is not None:
            for a, want in expect_ids.items():
                got = ids.get(a)
                if got is None:
                    continue
                if a == sorted_axis:
                    if sorted(got) != sorted(want):
                        V.append(viol("entities-preserved", C, "multiset", "step %d: %s axis holds entities %s, expected a permutation of %s" % (ix, a, got, want), step=ix))
                        return None
                    names, keys = mm.sort_keys_of(model, a, got)
                    if names and not _sorted_either(keys):
                        V.append(viol("sorted-by-keys", C, "order", "step %d: %s axis not sorted by %s: %s" % (ix, a, names, keys), step=ix))
                        return None
                elif got != want:
                    V.append(viol("entities-in-order", C, "axis=%s" % a, "step %d: %s axis holds entities %s, the operation dictates %s" % (ix, a, got, want), step=ix))
                    return None
        lp = mm.check_labels(key, o, model, ids)
        if lp:
            V.append(viol("labels-follow-entity", C, "label=%s" % lp[0][0], "step %d: %s" % (ix, lp[0][1]), step=ix))
            return None
        gp = mm.check_groups(key, o)
        if gp:
            V.append(viol("group-metadata-true", C, "axis=%s" % gp[0][0], "step %d: %s" % (ix, gp[0][1]), step=ix))
            return None
        return ids

    ids = verify(cur, "constructor", -1, dict(model.ids))
    if ids is None or ids == "stop":
        return _out(sc, V, log, kinds, faults, probes, accepted)

    for ix, st in enumerate(sc["steps"]):
        op, axis = st["op"], st["axis"]
        if axis not in model.ids:
            continue
        if op == "genotype":
            res = _genotype_step(key, st, ix, cur, model, kind, V, kinds, faults, verify)
            if res is None or res == "stop":
                break
            cur, newids = res
            accepted += 1
            for a, l in newids.items():
                model.ids[a] = l
            log.append(["genotype", ix, st["prot"], [len(model.ids[a]) for a in sorted(model.ids)]])
            continue
        n = len(model.ids[axis])
        maxes = mm.mat_axes(key, axis)
        axi = maxes[0] - (cur.mat.ndim if st["negaxis"] else 0)
        if st["negaxis"]:
            fault("negative_axis_index")
        before = _state(cur, kind)
        spec = None
        operands = []
        expect = {a: list(l) for a, l in model.ids.items()}
        sorted_axis = None
        # ---- build the call forms: list of (formname, mutating, fn(clone) -> result or None)
        forms = []
        if op == "select":
            spec = _index_spec(st, n, "select")
            if spec[0] in ("int", "npint", "slice", "mask"):
                spec = ("list", sorted(mm.norm_delete(n, spec) or []))       # select takes index arrays
            arg = mm.real_index(spec)
            expect[axis] = [model.ids[axis][i] for i in spec[1]]
            forms = [("spec", False, lambda x: getattr(x, "select_" + axis)(arg)),
                     ("gen", False, lambda x: x.select(arg, axis=axi))]
            if not spec[1]:
                fault("empty_selection")
        elif op == "delete":
            spec = _index_spec(st, n, "delete")
            gone = mm.norm_delete(n, spec)
            if gone is None:
                continue
            arg = mm.real_index(spec)
            expect[axis] = [e for i, e in enumerate(model.ids[axis]) if i not in gone]
            forms = [("spec", False, lambda x: getattr(x, "delete_" + axis)(arg)),
                     ("gen", False, lambda x: x.delete(arg, axis=axi)),
                     ("spec-mut", True, lambda x: getattr(x, "remove_" + axis)(arg)),
                     ("gen-mut", True, lambda x: x.remove(arg, axis=axi))]
            if spec[0] == "mask":
                fault("boolean_mask")
            if len(gone) == n and n > 0:
                fault("axis_emptied")
        elif op in ("insert", "adjoin", "concat"):
            k = st["k"]
            if n + k > 7:
                continue
            new = model.fresh(R, axis, k)
            try:
                operand = model.build({axis: new})
            except Exception:
                continue
            operands = [operand]
            opnd = operand
            if (st.get("unnamed") and axis == "taxa" and kind == "float" and op in ("insert", "adjoin") and not mm.is_square(key)
                    and sc["cfg"]["present"].get("taxa", True)):
                # values handed over as a bare array without taxon names: the new entities are nameless (None)
                class _Bare:
                    pass
                grpkw = {"taxa_grp": operand.taxa_grp} if sc["cfg"]["present"].get("taxa_grp", True) else {}
                opnd = ("bare", numpy.array(operand.mat), grpkw)
                for e in new:
                    model.ent[(axis, e)]["taxa"] = None
                fault("operand_without_names")
            okw_extra = {}
            if st.get("override") and not isinstance(opnd, tuple) and op in ("insert", "adjoin") and not (axis == "taxa" and mm.is_square(key)):
                # an explicit label array passed next to a labelled operand takes precedence over the operand's own labels
                cands = [nm for nm in mm.LABELS[axis] if sc["cfg"]["present"].get(nm, True)
                         and not (kind != "float" and nm in ("taxa", "vrnt_name", "trait"))]
                if cands:
                    nm = cands[st["a"][2] % len(cands)]
                    vals = [mm.make_label(R, axis, nm, 900 + e, sc["cfg"]) for e in new]
                    okw_extra[nm] = mm._larr(nm, vals)
                    for e, v in zip(new, vals):
                        model.ent[(axis, e)][nm] = v
                    fault("explicit_label_override")
            if op == "insert":
                if st["argform"] in ("int", "negint", "npint", "slice", "mask", "empty") or k == 1 and st["a"][3] % 2:
                    pos = st["a"][0] % (n + 1)
                    if st["argform"] == "negint" and n > 0:
                        pos = -(st["a"][0] % n) - 1
                    arg = numpy.int64(pos) if st["argform"] == "npint" else int(pos)
                    p = pos if pos >= 0 else n + pos
                    expect[axis] = model.ids[axis][:p] + new + model.ids[axis][p:]
                    spec = ("int", pos)
                else:
                    poss = sorted(random.Random(st["a"][1]).sample(range(n + 1), min(k, n + 1)))
                    if len(poss) != k:
                        continue
                    arg = list(poss) if st["argform"] == "list" else numpy.array(poss, dtype=int)
                    out = []
                    for i in range(n + 1):
                        for j, p in enumerate(poss):
                            if p == i:
                                out.append(new[j])
                        if i < n:
                            out.append(model.ids[axis][i])
                    expect[axis] = out
                    spec = ("list", poss)
                ov, okw = (opnd[1], opnd[2]) if isinstance(opnd, tuple) else (operand, dict(okw_extra))
                forms = [("spec", False, lambda x: getattr(x, "insert_" + axis)(arg, ov, **okw)),
                         ("gen", False, lambda x: x.insert(arg, ov, axis=axi, **okw)),
                         ("spec-mut", True, lambda x: getattr(x, "incorp_" + axis)(arg, ov, **okw)),
                         ("gen-mut", True, lambda x: x.incorp(arg, ov, axis=axi, **okw))]
            elif op == "adjoin":
                expect[axis] = model.ids[axis] + new
                ov, okw = (opnd[1], opnd[2]) if isinstance(opnd, tuple) else (operand, dict(okw_extra))
                forms = [("spec", False, lambda x: getattr(x, "adjoin_" + axis)(ov, **okw)),
                         ("gen", False, lambda x: x.adjoin(ov, axis=axi, **okw)),
                         ("spec-mut", True, lambda x: getattr(x, "append_" + axis)(ov, **okw)),
                         ("gen-mut", True, lambda x: x.append(ov, axis=axi, **okw))]
            else:
                new2 = model.fresh(R, axis, 1)
                try:
                    operand2 = model.build({axis: new2})
                except Exception:
                    continue
                operands = [operand, operand2]
                if (st.get("unnamed") and axis == "taxa" and kind == "float" and not mm.is_square(key)
                        and sc["cfg"]["present"].get("taxa", True)):
                    # one of the matrices being concatenated has no taxon names: its block is nameless in the result,
                    # the blocks of the named matrices keep their names
                    try:
                        operand2.taxa = None
                        for e in new2:
                            model.ent[(axis, e)]["taxa"] = None
                        fault("concat_operand_without_names")
                    except Exception:
                        pass
                if st.get("single"):
                    # a list holding the receiver alone: the result is a new matrix equal to it
                    expect[axis] = list(model.ids[axis])
                    operands = []
                    mk = lambda x: [x]
                    fault("concat_of_a_single_matrix")
                elif st["first"]:
                    expect[axis] = model.ids[axis] + new + new2
                    mk = lambda x: [x, operand, operand2]
                else:
                    expect[axis] = new + model.ids[axis] + new2
                    mk = lambda x: [operand, x, operand2]
                forms = [("spec", False, lambda x: getattr(cls, "concat_" + axis)(mk(x))),
                         ("gen", False, lambda x: cls.concat(mk(x), axis=axi))]
        elif op == "reorder":
            perm = list(range(n))
            random.Random(st["a"][0]).shuffle(perm)
            arg = numpy.array(perm, dtype=int) if st["argform"] != "list" else list(perm)
            expect[axis] = [model.ids[axis][i] for i in perm]
            forms = [("spec-mut", True, lambda x: getattr(x, "reorder_" + axis)(arg)),
                     ("gen-mut", True, lambda x: x.reorder(arg, axis=axi))]
        elif op == "lexsort":
            forms = [("spec", False, lambda x: ("indices", getattr(x, "lexsort_" + axis)())),
                     ("gen", False, lambda x: ("indices", x.lexsort(None, axis=axi)))]
        elif op == "sort":
            sorted_axis = axis
            forms = [("spec-mut", True, lambda x: getattr(x, "sort_" + axis)()),
                     ("gen-mut", True, lambda x: x.sort(None, axis=axi))]
        elif op == "group":
            sorted_axis = axis
            forms = [("spec-mut", True, lambda x: getattr(x, "group_" + axis)()),
                     ("gen-mut", True, lambda x: x.group(axis=axi))]
        elif op == "ungroup":
            forms = [("spec-mut", True, lambda x: getattr(x, "ungroup_" + axis)()),
                     ("gen-mut", True, lambda x: x.ungroup(axis=axi))]
        elif op == "is_grouped":
            forms = [("spec", False, lambda x: ("bool", bool(getattr(x, "is_grouped_" + axis)()))),
                     ("gen", False, lambda x: ("bool", bool(x.is_grouped(axis=axi))))]
        else:
            continue
        kinds.append("%s:%s:%s" % (op, axis, spec[0] if spec else "-"))
        opsnaps = [_state(o, kind) for o in operands]
        results = [None] * len(forms)
        pick = st["pick"] % len(forms)
        # every form runs on its own clone of the current object, except the form whose result is kept when it is a
        # mutating one: that one runs last and on the current object itself, which may share label arrays with the
        # objects it was derived from (they are kept as bystanders and must not change)
        order = [i for i in range(len(forms)) if i != pick] + [pick]
        for fi in order:
            fname, mut, fn = forms[fi]
            try:
                x = cur if (fi == pick and mut and bystanders) else copy.deepcopy(cur)
            except Exception as e:
                # the current object cannot be cloned (e.g. an emptied axis): end of this history
                probes["history_ended_unclonable"] = 1
                results = None
                break
            try:
                r = fn(x)
                res = x if mut else r
                err = None
            except Exception as e:
                res, err = None, e
            after = _state(x, kind)
            results[fi] = {"form": fname, "mut": mut, "res": res, "err": err, "clone_changed": after != before, "src": x}
            for o, s0 in zip(operands, opsnaps):
                if _state(o, kind) != s0:
                    V.append(viol("operands-unchanged", "%s.%s_%s" % (key, MUT.get(op, op) if mut else op, axis), "operand",
                                  "step %d: form %s modified an operand matrix" % (ix, fname), step=ix))
                    break
            if V:
                break
        if V or results is None or any(r is None for r in results):
            break
        okf = [r for r in results if r["err"] is None]
        bad = [r for r in results if r["err"] is not None]
        opname = "%s.%s_%s" % (key, op, axis)
        if not okf:
            # rejected in every form: the receiver must be exactly as before
            ch = [r for r in results if r["clone_changed"]]
            log.append(["rejected", ix, op, axis, type(bad[0]["err"]).__name__])
            probes["op_rejected_in_every_form"] = probes.get("op_rejected_in_every_form", 0) + 1
            rk = "rejected:%s_%s:%s:%s" % (op, axis, spec[0] if spec else "-", type(bad[0]["err"]).__name__)
            probes[rk] = probes.get(rk, 0) + 1
            if ch:
                V.append(viol("failed-op-leaves-object", opname, "form=%s" % ch[0]["form"],
                              "step %d: %s raised %s but left the receiver modified" % (ix, ch[0]["form"], type(ch[0]["err"]).__name__), step=ix))
                break
            continue
        if bad:
            b = bad[0]
            V.append(viol("forms-agree", opname, "%s-raises:%s" % (b["form"], type(b["err"]).__name__),
                          "step %d: form %s raised %s: %s while form %s succeeded (arg %s)" % (ix, b["form"], type(b["err"]).__name__, str(b["err"])[:120], okf[0]["form"], spec), step=ix))
            break
        accepted += 1
        # non-mutating forms leave the receiver alone
        for r in results:
            if not r["mut"] and r["clone_changed"]:
                V.append(viol("non-mutating-leaves-receiver", opname, "form=%s" % r["form"], "step %d: non-mutating form %s changed its receiver" % (ix, r["form"]), step=ix))
                break
        if V:
            break
        # all forms agree
        first = results[0]
        if isinstance(first["res"], tuple):
            vals = [r["res"] for r in results]
            tag = vals[0][0]
            if tag == "indices":
                arrs = [numpy.asarray(v[1]) for v in vals]
                if any(a.shape != arrs[0].shape or not numpy.array_equal(a, arrs[0]) for a in arrs[1:]):
                    V.append(viol("forms-agree", opname, "generic-vs-specific", "step %d: lexsort forms return different indices" % ix, step=ix))
                    break
                idx = arrs[0].tolist()
                if sorted(idx) != list(range(n)):
                    V.append(viol("sorted-by-keys", opname, "not-a-permutation", "step %d: lexsort returned %s for %d entries" % (ix, idx, n), step=ix))
                    break
                names, keys = mm.sort_keys_of(model, axis, [model.ids[axis][i] for i in idx])
                if names and not _sorted_either(keys):
                    V.append(viol("sorted-by-keys", opname, "order", "step %d: lexsort indices do not sort by %s: %s" % (ix, names, keys), step=ix))
                    break
            else:
                if len({v[1] for v in vals}) != 1:
                    V.append(viol("forms-agree", opname, "generic-vs-specific", "step %d: is_grouped forms disagree: %s" % (ix, vals), step=ix))
                    break
            log.append([op, ix, axis, "query"])
            continue
        for r in results[1:]:
            d = _same(first["res"], r["res"], kind)
            if d:
                which = "mutating-vs-non-mutating" if r["mut"] != first["mut"] else "generic-vs-specific"
                V.append(viol("forms-agree", opname, which, "step %d: form %s and form %s give different objects (%s)" % (ix, first["form"], r["form"], d), step=ix))
                break
        if V:
            break
        new_cur = results[pick]["res"]
        got = verify(new_cur, "%s_%s" % (op, axis), ix, expect, sorted_axis)
        if got is None or got == "stop":
            break
        # objects this history derived others from (sources of non-mutating forms, operands) stay as they were,
        # whatever is later done to the objects derived from them
        for o, s0, born in bystanders:
            if _state(o, kind) != s0:
                V.append(viol("source-unaffected-by-later-ops", opname, "bystander-changed",
                              "step %d: %s on the current object changed a matrix it had been derived from at step %d" % (ix, results[pick]["form"], born), step=ix))
                break
        if V:
            break
        if not results[pick]["mut"]:
            try:
                bystanders.append((results[pick]["src"], _state(results[pick]["src"], kind), ix))
                for o in operands:
                    bystanders.append((o, _state(o, kind), ix))
            except Exception:
                pass
            del bystanders[:-3]
            fault("derived_object_kept_with_its_source")
        if op == "group" and axis in mm.GROUPMETA:
            try:
                if getattr(new_cur, "is_grouped_" + axis)():
                    fault("matrix_grouped")
            except Exception:
                pass
        cur = new_cur
        for a, l in got.items():
            if l is not None:
                model.ids[a] = l
        log.append([op, ix, axis, spec[0] if spec else None, [len(model.ids[a]) for a in sorted(model.ids)]])
    if V and kind == "bv":
        # breeding-value classes do not carry location/scale through trait-axis operations (known finding):
        # every violation raised by a trait-axis step of these classes is reported under one signature per class
        st = V[-1].get("step")
        if st is not None and st >= 0 and sc["steps"][st]["axis"] == "trait":
            v = V[-1]
            V[-1] = viol("bv-trait-axis", "%s.*_trait" % key, "location-scale-not-carried",
                         v["message"] + " [%s]" % v["signature"], step=st)
    return _out(sc, V, log, kinds, faults, probes, accepted)


def _genotype_step(key, st, ix, cur, model, kind, V, kinds, faults, verify):
    """Genotyping protocols produce a new matrix from a phased genotype matrix: same taxa, the unmasked variants."""
    prot = st["prot"]
    inv = prot.endswith("_inv")
    if prot == "unphased":
        gp, unph = DenseUnphasedGenotyping(), True
    elif prot.startswith("masked_phased"):
        gp, unph = DenseMaskedPhasedGenotyping(invert=inv), False
    else:
        gp, unph = DenseMaskedUnphasedGenotyping(invert=inv), True
    C = "%s.genotype" % type(gp).__name__
    kinds.append("genotype:%s" % prot)
    before = _state(cur, kind)
    try:
        out = gp.genotype(cur)
    except Exception as e:
        V.append(viol("genotyping-completes", C, "raises:%s" % type(e).__name__, "step %d: %s: %s" % (ix, type(e).__name__, e), step=ix))
        return None
    if _state(cur, kind) != before:
        V.append(viol("operands-unchanged", C, "pgmat", "step %d: genotyping modified the phased matrix" % ix, step=ix))
        return None
    vids = list(model.ids["vrnt"])
    if prot != "unphased" and model.cfg["present"].get("vrnt_mask", True):
        keep = [bool(model.ent[("vrnt", i)]["vrnt_mask"]) != inv for i in vids]
        vids = [i for i, k in zip(vids, keep) if k]
        faults["variants_masked_out"] = faults.get("variants_masked_out", 0) + 1
        if not vids:
            faults["all_variants_masked_out"] = faults.get("all_variants_masked_out", 0) + 1
    expect = {"taxa": list(model.ids["taxa"]), "vrnt": vids}
    if not unph:
        expect["phase"] = list(model.ids["phase"])
        got = verify(out, C, ix, expect)
        if got is None or got == "stop":
            return got
        return out, got
    # unphased result: a DenseGenotypeMatrix whose cells are the phase sums of the entities' cells
    C2 = C
    exp = mm.payload(key, [model.ids["phase"], expect["taxa"], vids]).sum(0).astype("int8")
    if out.mat.shape != exp.shape or not numpy.array_equal(out.mat, exp):
        V.append(viol("data-follows-entity", C2, "cells", "step %d: genotype calls are not the allele sums of the taxa/variants they are labelled with" % ix, step=ix))
        return None
    ids = {"taxa": expect["taxa"], "vrnt": vids}
    try:
        tn = [int(str(x)[1:]) for x in out.taxa.tolist()]
        vn = [int(str(x)[1:]) for x in out.vrnt_name.tolist()]
    except Exception:
        V.append(viol("labels-follow-entity", C2, "label=taxa", "step %d: names missing or foreign on the genotyped matrix" % ix, step=ix))
        return None
    if tn != ids["taxa"] or vn != ids["vrnt"]:
        V.append(viol("entities-in-order", C2, "axis=%s" % ("taxa" if tn != ids["taxa"] else "vrnt"), "step %d: genotyped matrix lists entities %s / %s, expected %s / %s" % (ix, tn, vn, ids["taxa"], ids["vrnt"]), step=ix))
        return None
    lp = mm.check_labels("DenseGenotypeMatrix", out, model, ids)
    if lp:
        V.append(viol("labels-follow-entity", C2, "label=%s" % lp[0][0], "step %d: %s" % (ix, lp[0][1]), step=ix))
        return None
    gp_ = mm.check_groups("DenseGenotypeMatrix", out)
    if gp_:
        V.append(viol("group-metadata-true", C2, "axis=%s" % gp_[0][0], "step %d: %s" % (ix, gp_[0][1]), step=ix))
        return None
    return "stop"


def _out(sc, V, log, kinds, faults, probes, accepted):
    cfgclass = "u%d|p%d" % (int(sc["cfg"]["unique_names"]), sum(1 for v in sc["cfg"]["present"].values() if v))
    trace = "%s|%s|%s|g%d" % (sc["key"], kinds, cfgclass, int(sc["grouped0"]))
    return {"violations": V, "log": log, "trace": trace, "nontrivial": accepted > 0, "faults": faults, "probes": probes,
            "sim": {"operations_accepted": accepted, "operations_tried": len(kinds)}}
