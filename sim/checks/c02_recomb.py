"""C02 — realised recombination and segregation match the crossover probabilities.

Two complementary modes at the generator seam.
(a) Stratified scripted draws (deterministic): every uniform(0,1,(N,m)) request is
    answered, column by column, with a seeded permutation of the stratified points
    (i+1/2)/N.  Then the realised crossover frequency of every interval is within
    1/N of its probability and the copy transmitted at a chromosome start within
    1/N of one half — exactly, with no statistical error.  If the implementation
    stops asking for such draws the mode reports "not applicable" (probe), never
    a violation.
(b) Real PRNG at fixed seeds with an explicit error budget: N = 2e5 gametes per
    design; adjacent intervals, non-adjacent pairs on a Haldane map
    (interp_xoprob), independent assortment between chromosomes, one-half
    transmission at every locus, independence of crossovers in different
    intervals, and segregation after selfing through the mating protocols.
    Deviations must stay below 6.5*sqrt(v/N) + 2/N (false alarm < 1e-10 per
    comparison, < 1e-6 per run of the whole check, reproducible per VERIF_SEED).
"""
import copy
import math
import random

import numpy

from .. import compat  # noqa: F401
from ..core import viol, adig
from .. import rngseam, world
from ..world import obj

from pybrops.popgen.gmat.DensePhasedGenotypeMatrix import DensePhasedGenotypeMatrix
from pybrops.popgen.gmap.StandardGeneticMap import StandardGeneticMap
from pybrops.popgen.gmap.ExtendedGeneticMap import ExtendedGeneticMap
from pybrops.popgen.gmap.HaldaneMapFunction import HaldaneMapFunction
from pybrops.popgen.gmap.KosambiMapFunction import KosambiMapFunction
from pybrops.breed.prot.mate import util as putil
from pybrops.core.util import mate as cutil
from pybrops.breed.prot.mate.SelfCross import SelfCross
from pybrops.breed.prot.mate.TwoWayCross import TwoWayCross
from pybrops.breed.prot.mate.TwoWayDHCross import TwoWayDHCross
from pybrops.breed.prot.mate.ThreeWayCross import ThreeWayCross
from pybrops.breed.prot.mate.ThreeWayDHCross import ThreeWayDHCross
from pybrops.breed.prot.mate.FourWayCross import FourWayCross
from pybrops.breed.prot.mate.FourWayDHCross import FourWayDHCross

PROP = "C02"
RUNS = {"quick": 3000, "thorough": 80000}
WALL = {"quick": 240, "thorough": 2700}
RUN_TIMEOUT = 300
RULE = ("scenario = design kind (stratified low-level meiosis | stratified through a mating protocol | real-PRNG map-based meiosis with 2e5 gametes | "
        "real-PRNG selfing design through a protocol), 1-12 markers on 1-3 chromosomes, crossover probabilities arbitrary (exact 0 and 0.5 included) or "
        "interpolated from a generated genetic map with the Haldane or Kosambi function, optionally after an earlier mapping onto another map (re-mapping history); map-assigned probabilities are judged against values computed here from the map applied last; distinct = (kind, protocol/function, chromosome count, probability source, "
        "selfing depth, map function, map points, map class, re-mapping, marker order, parent type); non-trivial = at least one frequency comparison made")
COMPONENTS = {"real": ["mat_meiosis / mat_dh / mat_mate, dense_meiosis / dense_dh / dense_cross", "seven mating protocols", "StandardGeneticMap + HaldaneMapFunction / KosambiMapFunction + interp_xoprob"],
              "stub": ["generator subclass: stratified scripted uniform draws in mode (a); real PCG64/MT19937 in mode (b)"]}
ASSUMPTIONS = ["parents carry distinct provenance codes on their two copies so a gamete's phase sequence can be read off the progeny",
               "mode (b) thresholds 6.5*sqrt(p(1-p)/N) + 2/N: sensitivity roughly 1% at N = 2e5",
               "mode (a) applies only while meiosis asks the generator for an (N, m) block of uniforms; otherwise it records a probe"]

PROT = {"self": (SelfCross, 1, False), "2w": (TwoWayCross, 2, False), "2wdh": (TwoWayDHCross, 2, True), "3w": (ThreeWayCross, 3, False),
        "3wdh": (ThreeWayDHCross, 3, True), "4w": (FourWayCross, 4, False), "4wdh": (FourWayDHCross, 4, True)}
LOW = {"mat_meiosis": putil.mat_meiosis, "dense_meiosis": cutil.dense_meiosis, "mat_dh": putil.mat_dh, "dense_dh": cutil.dense_dh}


MAPFN = {"haldane": HaldaneMapFunction, "kosambi": KosambiMapFunction}


def generate(R, tier):
    r = R.random()
    kind = "strat-low" if r < 0.40 else ("strat-prot" if r < 0.78 else ("strat-chain" if r < 0.9 else ("real-map" if r < 0.96 else "real-self")))
    nchr = R.randint(1, 3)
    m = R.randint(nchr, 12)
    sc = {"kind": kind, "nchr": nchr, "m": m, "seed": R.randrange(1 << 30), "rngkind": R.choice(["Generator", "Generator", "RandomState"]),
          "rngseed": R.randrange(1 << 30)}
    if kind == "strat-low":
        sc.update(fn=R.choice(sorted(LOW)), N=R.choice([64, 100, 250, 1000]), xosrc=R.choice(["arbitrary", "arbitrary", "map"]))
    elif kind == "strat-prot":
        sc.update(prot=R.choice(sorted(PROT)), N=R.choice([50, 64, 100, 200]), xosrc=R.choice(["arbitrary", "map"]), inbred=R.random() < 0.6, dhhet=R.random() < 0.3)
    elif kind == "strat-chain":
        # two generations: the progeny object returned by one protocol is itself mated; its meioses must follow the same probabilities
        sc.update(prot=R.choice(["2w", "3w", "4w"]), N=R.choice([64, 100, 200]), xosrc=R.choice(["arbitrary", "map"]))
    elif kind == "real-map":
        sc.update(fn=R.choice(["mat_meiosis", "dense_meiosis"]), N=200000, xosrc="map")
    else:
        sc.update(prot=R.choice(["2w", "2wdh", "self", "4w"]), N=40000, nself=R.choice([1, 2]), xosrc="map")
    # markers may be handed to the matrix in any order (grouping sorts them; every per-marker array has to follow)
    sc["shuffled"] = R.random() < 0.35
    if sc["xosrc"] == "map":
        # the map: its points coincide with the markers, or it has fewer points (markers between them are interpolated,
        # markers outside them extrapolated); plain or extended map class
        sc["knots"] = R.choice(["coincide", "coincide", "sparse"])
        sc["mapcls"] = R.choice(["standard", "standard", "extended"])
        sc["maprows"] = R.choice(["sorted", "sorted", "unsorted"])
        sc["maphist"] = R.choice([None, None, "export"])
        sc["mapfn"] = R.choice(["haldane", "haldane", "kosambi"])
        # history: the matrix may have been mapped before, onto another map and/or with another map function
        sc["remap"] = None if R.random() < 0.6 else {"factor": R.choice([0.25, 0.5, 2.0, 3.0]), "mapfn": R.choice(["haldane", "kosambi"])}
    return sc


def shrink(sc):
    for k, plain in (("shuffled", False), ("knots", "coincide"), ("mapcls", "standard"), ("maprows", "sorted"), ("maphist", None), ("mapfn", "haldane")):
        if sc.get(k) not in (None, plain):
            c = copy.deepcopy(sc)
            c[k] = plain
            yield c
    if sc.get("remap"):
        c = copy.deepcopy(sc)
        c["remap"] = None
        yield c
    if sc["m"] > sc["nchr"]:
        c = copy.deepcopy(sc)
        c["m"] -= 1
        yield c
    if sc["nchr"] > 1:
        c = copy.deepcopy(sc)
        c["nchr"] -= 1
        yield c
    if sc["rngkind"] != "Generator":
        c = copy.deepcopy(sc)
        c["rngkind"] = "Generator"
        yield c


XO_GIVEN = [None]   # crossover probabilities handed to the matrix, in map order (set by execute)
KNOTS = {}          # points of the sparse map of the design being executed (set by _layout)


def _layout(sc):
    """Chromosome labels, positions and crossover probabilities for the design."""
    R = random.Random(sc["seed"])
    m, nchr = sc["m"], sc["nchr"]
    chrgrp, _ = world.chrom_layout(R, m, nchr)
    phypos = numpy.zeros(m, dtype=int)
    genpos = numpy.zeros(m)
    for c in numpy.unique(chrgrp):
        ix = numpy.flatnonzero(chrgrp == c)
        phypos[ix] = numpy.cumsum([R.randint(1, 50) for _ in ix])
        genpos[ix] = numpy.cumsum([R.choice([0.0, 0.01, 0.05, 0.1, 0.3, 0.7, R.random()]) if k else 0.0 for k, _ in enumerate(ix)])
    KNOTS.clear()
    if sc["xosrc"] == "map" and sc.get("knots") == "sparse":
        kc, kp, kg = [], [], []
        for c in numpy.unique(chrgrp):
            ix = numpy.flatnonzero(chrgrp == c)
            if len(ix) < 2:
                continue
            pick = sorted(R.sample(range(len(ix)), R.randint(2, len(ix))))
            kpos = [int(phypos[ix[i]]) for i in pick]
            kgen = list(numpy.cumsum([R.choice([0.0, 0.02, 0.1, 0.4, R.random()]) for _ in pick]))
            # marker positions on this map: linear between its points, the end segments continued outside them
            for j in ix:
                x = float(phypos[j])
                if x <= kpos[0]:
                    a, b = 0, 1
                elif x >= kpos[-1]:
                    a, b = len(kpos) - 2, len(kpos) - 1
                else:
                    b = next(t for t in range(len(kpos)) if kpos[t] >= x)
                    a = b - 1
                genpos[j] = kgen[a] + (x - kpos[a]) * (kgen[b] - kgen[a]) / float(kpos[b] - kpos[a])
            kc += [int(c)] * len(kpos)
            kp += kpos
            kg += [float(v) for v in kgen]
        KNOTS.update(chr=numpy.array(kc, dtype=chrgrp.dtype), phy=numpy.array(kp, dtype=int), gen=numpy.array(kg, dtype=float))
    if sc["xosrc"] == "arbitrary":
        xo = numpy.array([R.choice([0.0, 0.0, 0.5, 0.1, 0.25, 0.3, 0.01, 0.499, R.random() / 2, 0.65, 0.8, 1.0, R.random()]) for _ in range(m)])
        for c in numpy.unique(chrgrp):
            xo[numpy.flatnonzero(chrgrp == c)[0]] = 0.5
    else:
        xo = None
    return chrgrp, phypos, genpos, xo


def _parents(sc, chrgrp, phypos, genpos, xo, ntaxa, hetero):
    """Parents with provenance codes; hetero: each parent's two copies carry different codes."""
    m = len(chrgrp)
    mat = numpy.empty((2, ntaxa, m), dtype="int8")
    for t in range(ntaxa):
        mat[0, t, :] = 2 * t if hetero else t
        mat[1, t, :] = 2 * t + 1 if hetero else t
    od = numpy.arange(m)
    if sc.get("shuffled"):
        random.Random(sc["seed"] + 17).shuffle(od)
    pg = DensePhasedGenotypeMatrix(mat[:, :, od], taxa=obj(["p%d" % i for i in range(ntaxa)]), taxa_grp=numpy.zeros(ntaxa, dtype=int),
                                   vrnt_chrgrp=chrgrp[od], vrnt_phypos=phypos[od], vrnt_name=obj(["m%d" % i for i in od]),
                                   vrnt_genpos=genpos[od] if xo is not None else None, vrnt_xoprob=xo[od] if xo is not None else None)
    pg.group_vrnt()
    if [str(v) for v in pg.vrnt_name.tolist()] != ["m%d" % i for i in range(m)]:
        return "misordered"
    if xo is None:
        # genetic maps are defined for chromosomes with at least two markers (C11's domain)
        if any(int((chrgrp == c).sum()) < 2 for c in numpy.unique(chrgrp)):
            return None
        # positions of the map coincide with the markers: interpolation returns the stored positions
        kc, kp, kg = (KNOTS["chr"], KNOTS["phy"], KNOTS["gen"]) if KNOTS else (chrgrp, phypos, genpos)

        def mkmap(gen):
            o = numpy.arange(len(kp))
            kw = {}
            if sc.get("maprows") == "unsorted":
                # a map whose rows are in arbitrary order and that is not sorted on construction
                random.Random(sc["seed"] + 29).shuffle(o)
                kw["auto_group"] = False
            if sc.get("mapcls") == "extended":
                return ExtendedGeneticMap(vrnt_chrgrp=kc[o], vrnt_phypos=kp[o], vrnt_stop=kp[o], vrnt_genpos=numpy.asarray(gen)[o], **kw)
            return StandardGeneticMap(vrnt_chrgrp=kc[o], vrnt_phypos=kp[o], vrnt_genpos=numpy.asarray(gen)[o], **kw)
        gmap = mkmap(kg)
        if sc.get("maphist") == "export":
            # the map has been exported (default units) and its interpolation rebuilt before it is used
            gmap.to_pandas()
            gmap.build_spline()
        # a chromosome needs two map points for a spline; pad single-marker chromosomes
        try:
            rm = sc.get("remap")
            if rm:
                old = mkmap(kg * rm["factor"])
                pg.interp_xoprob(old, MAPFN[rm["mapfn"]]())
            pg.interp_xoprob(gmap, MAPFN[sc.get("mapfn", "haldane")]())
        except Exception as e:
            return "raised %s: %s" % (type(e).__name__, str(e)[:160])
    return pg


def _xo_ref(sc, pg, chrgrp, genpos):
    """Crossover probabilities the gametes are judged against: the vector handed to the
    matrix, or - when it was assigned from a genetic map - one half at every chromosome
    start and the map function of the distance to the previous marker on the map applied
    last, computed here."""
    if sc["xosrc"] != "map":
        return numpy.asarray(XO_GIVEN[0], dtype=float)
    out = numpy.empty(len(genpos))
    for j in range(len(genpos)):
        if j == 0 or chrgrp[j] != chrgrp[j - 1]:
            out[j] = 0.5
        else:
            d = float(genpos[j] - genpos[j - 1])
            out[j] = 0.5 * (1.0 - math.exp(-2.0 * d)) if sc.get("mapfn", "haldane") == "haldane" else 0.5 * math.tanh(2.0 * d)
    return out


def _thr(p, N, sig=6.5):
    return sig * math.sqrt(max(p * (1.0 - p), 0.0) / N) + 2.0 / N


def _check_gametes(sc, G, xo, chrgrp, genpos, V, C, exact, nsite):
    """G: (N, m) phase indicators (0 = copy 0, 1 = copy 1) of N single-meiosis gametes."""
    N, m = G.shape
    starts = {int(numpy.flatnonzero(chrgrp == c)[0]) for c in numpy.unique(chrgrp)}
    ncmp = 0
    # interval crossover frequencies
    for j in range(1, m):
        r = float((G[:, j] != G[:, j - 1]).mean())
        tol = 1.0 / N + 1e-12 if exact else _thr(xo[j], N)
        ncmp += 1
        if abs(r - xo[j]) > tol:
            V.append(viol("interval-frequency", C, "exact" if exact else "statistical",
                          "interval before marker %d: realised crossover frequency %.6f over %d gametes, probability %.6f (allowed deviation %.2g)" % (j, r, N, xo[j], tol)))
            return ncmp
    # transmitted copy at the first marker (probability xoprob[0] = 1/2 at a chromosome start)
    p0 = float(G[:, 0].mean())
    tol = 1.0 / N + 1e-12 if exact else _thr(0.5, N)
    ncmp += 1
    if xo[0] == 0.5 and abs(p0 - 0.5) > tol:
        V.append(viol("one-half-transmission", C, "first-marker|" + ("exact" if exact else "statistical"),
                      "copy 1 transmitted at the first marker in %.6f of %d gametes (allowed deviation from 0.5: %.2g)" % (p0, N, tol)))
        return ncmp
    if exact:
        return ncmp
    # ---- statistical clauses (mode b)
    for j in range(m):
        pj = float(G[:, j].mean())
        ncmp += 1
        if abs(pj - 0.5) > _thr(0.5, N):
            V.append(viol("one-half-transmission", C, "every-locus|statistical", "copy 1 transmitted at marker %d in %.6f of %d gametes" % (j, pj, N)))
            return ncmp
    X = (G[:, 1:] != G[:, :-1])
    for i in range(m):
        for j in range(i + 2, m):
            if chrgrp[i] == chrgrp[j]:
                if sc.get("mapfn", "haldane") != "haldane":
                    continue                                   # the non-adjacent clause is stated for Haldane maps
                d = abs(genpos[j] - genpos[i])
                e = 0.5 * (1.0 - math.exp(-2.0 * d))
                what = "haldane-non-adjacent"
            else:
                e = 0.5
                what = "independent-assortment"
            r = float((G[:, i] != G[:, j]).mean())
            ncmp += 1
            if abs(r - e) > _thr(e, N):
                V.append(viol(what, C, "statistical", "markers %d and %d: recombination frequency %.6f over %d gametes, expected %.6f" % (i, j, r, N, e)))
                return ncmp
    for a in range(X.shape[1]):
        for b in range(a + 1, X.shape[1]):
            e = xo[a + 1] * xo[b + 1]
            r = float((X[:, a] & X[:, b]).mean())
            ncmp += 1
            if abs(r - e) > _thr(e, N):
                V.append(viol("crossovers-independent", C, "statistical", "crossovers in intervals %d and %d coincide with frequency %.6f, product of probabilities %.6f" % (a + 1, b + 1, r, e)))
                return ncmp
    return ncmp


def execute(sc):
    V, log, faults, probes = [], [], {}, {}
    chrgrp, phypos, genpos, xo = _layout(sc)
    XO_GIVEN[0] = None if xo is None else numpy.array(xo, dtype=float, copy=True)
    kind = sc["kind"]
    strat = kind.startswith("strat")
    script = [{"method": "uniform", "mode": "stratified"}, {"method": "random", "mode": "stratified"}] if strat else []
    g = rngseam.make(sc["rngkind"], sc["rngseed"], script)
    N = sc["N"]
    ncmp = 0
    if kind in ("strat-low", "real-map"):
        pg = _parents(sc, chrgrp, phypos, genpos, xo, 1, True)
        if isinstance(pg, str):
            if pg == "misordered":
                V.append(viol("markers-sorted-with-their-data", "DensePhasedGenotypeMatrix.group_vrnt", "order", "grouping a matrix built from shuffled markers did not restore map order"))
            else:
                V.append(viol("map-assignment-completes", "DensePhasedGenotypeMatrix.interp_xoprob", pg.split(":")[0].replace(" ", ":"),
                              "assigning crossover probabilities from a %s map (%s rows, %s points, %s) %s" % (sc.get("mapcls"), sc.get("maprows"), sc.get("knots"), sc.get("mapfn"), pg)))
            return _out(sc, V, log, faults, probes, 0, g)
        if pg is None:
            return _out(sc, V, log, faults, probes, 0, g)
        xo_eff = numpy.asarray(pg.vrnt_xoprob, dtype=float)
        fn = LOW[sc["fn"]]
        C = sc["fn"]
        try:
            out = fn(pg.mat, numpy.zeros(N, dtype=int), xo_eff, g)
        except Exception as e:
            V.append(viol("meiosis-completes", C, "raises:%s" % type(e).__name__, "%s: %s" % (type(e).__name__, e)))
            return _out(sc, V, log, faults, probes, 0, g)
        G = (out[0] if out.ndim == 3 else out).astype(int) % 2
        log.append([C, adig(out)])
        if strat and g.fired.get("uniform:stratified", 0) + g.fired.get("random:stratified", 0) != 1:
            probes["stratified_mode_not_applicable"] = 1
            return _out(sc, V, log, faults, probes, 0, g)
        gp = genpos if sc["xosrc"] == "map" or pg.vrnt_genpos is None else numpy.asarray(pg.vrnt_genpos)
        ncmp = _check_gametes(sc, G, _xo_ref(sc, pg, numpy.asarray(pg.vrnt_chrgrp), genpos), numpy.asarray(pg.vrnt_chrgrp), gp, V, C, strat, 0)
    elif kind == "strat-prot":
        cls, npar, isdh = PROT[sc["prot"]]
        C = cls.__name__ + ".mate"
        # inbred parents make the later meioses of the multi-way protocols readable (which founder pair / which founder)
        hetero = not isdh and not (sc.get("inbred") and sc["prot"] in ("3w", "4w"))
        dhhet = bool(isdh and sc.get("dhhet"))
        if dhhet:
            # doubled haploids from heterozygous parents: every copy of every parent has to be transmitted at every locus
            hetero = True
            N = 400
        pg = _parents(sc, chrgrp, phypos, genpos, xo, 4, hetero)
        if isinstance(pg, str):
            if pg == "misordered":
                V.append(viol("markers-sorted-with-their-data", "DensePhasedGenotypeMatrix.group_vrnt", "order", "grouping a matrix built from shuffled markers did not restore map order"))
            else:
                V.append(viol("map-assignment-completes", "DensePhasedGenotypeMatrix.interp_xoprob", pg.split(":")[0].replace(" ", ":"),
                              "assigning crossover probabilities from a %s map (%s rows, %s points, %s) %s" % (sc.get("mapcls"), sc.get("maprows"), sc.get("knots"), sc.get("mapfn"), pg)))
            return _out(sc, V, log, faults, probes, 0, g)
        if pg is None:
            return _out(sc, V, log, faults, probes, 0, g)
        xo_eff = numpy.asarray(pg.vrnt_xoprob, dtype=float)
        xc = numpy.array([[0, 1, 2, 3][:npar]])
        try:
            # one progeny per mating when every progeny has to descend from its own hybrid
            prog = cls(progeny_counter=0, family_counter=0, rng=g).mate(pg, xc, N if dhhet else 1, 1 if dhhet else N, nself=0)
        except Exception as e:
            V.append(viol("meiosis-completes", C, "raises:%s" % type(e).__name__, "%s: %s" % (type(e).__name__, e)))
            return _out(sc, V, log, faults, probes, 0, g)
        log.append([C, adig(prog.mat)])
        pm = numpy.asarray(prog.mat).astype(int)
        if prog.mat.shape[1] != N:
            probes["stratified_mode_not_applicable"] = 1
            return _out(sc, V, log, faults, probes, 0, g)
        # which progeny copies are single meioses of a parent whose two copies differ?
        if sc["prot"] == "self":
            cols = [pm[0] % 2, pm[1] % 2]
        elif sc["prot"] == "2w":
            cols = [pm[0] % 2, pm[1] % 2]
        elif sc["prot"] == "3w" and hetero:
            cols = [pm[0] % 2]                      # copy 0 = gamete of the recurrent parent (heterozygous by construction)
        elif sc["prot"] == "3w":
            # inbred parents 0 (recurrent), 1, 2: the copy that is not the recurrent parent's is one gamete of the hybrid 1 x 2
            cols = [(pm[c] == 2).astype(int) for c in (0, 1) if set(numpy.unique(pm[c]).tolist()) <= {1, 2}]
            faults["readout_hybrid_gamete_of_three_way"] = 1
        elif sc["prot"] == "4w" and not hetero:
            # inbred parents: each copy is one gamete of the hybrid of one founder pair
            cols = []
            for c in (0, 1):
                codes = set(numpy.unique(pm[c]).tolist())
                for pair in ({0, 1}, {2, 3}):
                    if codes <= pair:
                        cols.append((pm[c] == max(pair)).astype(int))
            faults["readout_hybrid_gametes_of_four_way"] = 1
        elif dhhet:
            cols = []
            faults["dh_from_heterozygous_parents"] = 1
            if pm.shape[1] == N:
                for j in range(pm.shape[2]):
                    seen = set(numpy.unique(pm[0][:, j]).tolist())
                    want = set(range(2 * npar))
                    if not want <= seen:
                        V.append(viol("one-half-transmission", C, "parental-copy-never-transmitted",
                                      "marker %d: among %d doubled haploids of heterozygous parents the parental copies %s never occur (copies seen: %s)" % (j, N, sorted(want - seen), sorted(seen))))
                        break
                ncmp += pm.shape[2]
        elif isdh:
            # homozygous parents A x B (and C, D): the DH gamete comes from the hybrid; phase = which parent's code
            if sc["prot"] == "2wdh":
                cols = [(pm[0] == 1).astype(int)]
            elif sc["prot"] == "3wdh":
                # gamete of the three-way hybrid (recurrent 0 | gamete of 1 x 2): which side each locus came from
                cols = [numpy.isin(pm[0], [1, 2]).astype(int)]
                faults["readout_final_meiosis_of_multiway_dh"] = 1
            else:
                # gamete of the four-way hybrid (gamete of 0 x 1 | gamete of 2 x 3)
                cols = [numpy.isin(pm[0], [2, 3]).astype(int)]
                faults["readout_final_meiosis_of_multiway_dh"] = 1
        else:
            cols = []
        if not cols:
            probes["protocol_without_single_meiosis_readout"] = 1
        for G in cols:
            if G.shape != (N, len(xo_eff)):
                continue
            ncmp += _check_gametes(sc, G, _xo_ref(sc, pg, numpy.asarray(pg.vrnt_chrgrp), genpos), numpy.asarray(pg.vrnt_chrgrp), genpos, V, C, True, 0)
            if V:
                break
    elif kind == "strat-chain":
        cls, npar, isdh = PROT[sc["prot"]]
        C = cls.__name__ + ".mate->SelfCross.mate"
        pg = _parents(sc, chrgrp, phypos, genpos, xo, 4, False)
        if isinstance(pg, str):
            if pg == "misordered":
                V.append(viol("markers-sorted-with-their-data", "DensePhasedGenotypeMatrix.group_vrnt", "order", "grouping a matrix built from shuffled markers did not restore map order"))
            else:
                V.append(viol("map-assignment-completes", "DensePhasedGenotypeMatrix.interp_xoprob", pg.split(":")[0].replace(" ", ":"),
                              "assigning crossover probabilities from a %s map (%s rows, %s points, %s) %s" % (sc.get("mapcls"), sc.get("maprows"), sc.get("knots"), sc.get("mapfn"), pg)))
            return _out(sc, V, log, faults, probes, 0, g)
        if pg is None:
            return _out(sc, V, log, faults, probes, 0, g)
        xo_eff = numpy.asarray(pg.vrnt_xoprob, dtype=float)
        g1 = rngseam.make(sc["rngkind"], sc["rngseed"] + 1)                 # first generation: ordinary draws
        try:
            f1 = cls(progeny_counter=0, family_counter=0, rng=g1).mate(pg, numpy.array([[0, 1, 2, 3][:npar]]), 1, 1, nself=0)
            prog = SelfCross(progeny_counter=0, family_counter=0, rng=g).mate(f1, numpy.array([[0]]), 1, N, nself=0)
        except Exception as e:
            V.append(viol("meiosis-completes", C, "raises:%s" % type(e).__name__, "%s: %s" % (type(e).__name__, e)))
            return _out(sc, V, log, faults, probes, 0, g)
        faults["second_generation_from_returned_progeny"] = 1
        a0, a1 = set(numpy.asarray(f1.mat)[0, 0].tolist()), set(numpy.asarray(f1.mat)[1, 0].tolist())
        pm = numpy.asarray(prog.mat).astype(int)
        log.append([C, adig(prog.mat)])
        if a0 & a1 or pm.shape[1] != N:
            probes["chain_readout_not_applicable"] = 1
            return _out(sc, V, log, faults, probes, 0, g)
        for cp in (0, 1):
            G = numpy.isin(pm[cp], sorted(a1)).astype(int)
            ncmp += _check_gametes(sc, G, _xo_ref(sc, pg, numpy.asarray(pg.vrnt_chrgrp), genpos), numpy.asarray(pg.vrnt_chrgrp), genpos, V, C, True, 0)
            if V:
                break
    else:
        # real-PRNG segregation after selfing: F1 of two inbred parents selfed nself times
        cls, npar, isdh = PROT[sc["prot"]]
        C = cls.__name__ + ".mate"
        pg = _parents(sc, chrgrp, phypos, genpos, xo, 4, False)
        if isinstance(pg, str):
            if pg == "misordered":
                V.append(viol("markers-sorted-with-their-data", "DensePhasedGenotypeMatrix.group_vrnt", "order", "grouping a matrix built from shuffled markers did not restore map order"))
            else:
                V.append(viol("map-assignment-completes", "DensePhasedGenotypeMatrix.interp_xoprob", pg.split(":")[0].replace(" ", ":"),
                              "assigning crossover probabilities from a %s map (%s rows, %s points, %s) %s" % (sc.get("mapcls"), sc.get("maprows"), sc.get("knots"), sc.get("mapfn"), pg)))
            return _out(sc, V, log, faults, probes, 0, g)
        if pg is None:
            return _out(sc, V, log, faults, probes, 0, g)
        if sc["prot"] == "self":
            # a heterozygous individual selfed: build it as copies A / B
            mat = numpy.asarray(pg.mat).copy()
            mat[1, 0, :] = 1
            pg.mat = mat
            xc = numpy.array([[0]])
            nself = sc["nself"] - 1            # SelfCross itself is one selfing generation
            depth = sc["nself"]
        else:
            xc = numpy.array([[0, 1, 2, 3][:npar]])
            nself = sc["nself"]
            depth = sc["nself"]
        try:
            # one progeny per mating: every progeny descends from its own hybrid (independent families)
            prog = cls(progeny_counter=0, family_counter=0, rng=g).mate(pg, xc, N, 1, nself=nself)
        except Exception as e:
            V.append(viol("meiosis-completes", C, "raises:%s" % type(e).__name__, "%s: %s" % (type(e).__name__, e)))
            return _out(sc, V, log, faults, probes, 0, g)
        pm = numpy.asarray(prog.mat).astype(int)
        log.append([C, adig(prog.mat)])
        n = pm.shape[1]
        m = pm.shape[2]
        if sc["prot"] in ("2w", "2wdh", "self"):
            # two founder alleles (codes 0 and 1): allele frequency one half at every locus; heterozygosity halves per selfing
            for j in range(m):
                f = float((pm[:, :, j] == 1).mean())
                ncmp += 1
                if abs(f - 0.5) > _thr(0.5, 2 * n) * 1.5:
                    V.append(viol("one-half-transmission", C, "after-selfing|statistical", "allele of the second parent has frequency %.6f at marker %d after %d selfing generation(s) (%d progeny)" % (f, j, depth, n)))
                    break
                if not isdh:
                    h = float((pm[0, :, j] != pm[1, :, j]).mean())
                    e = 0.5 ** depth
                    ncmp += 1
                    if abs(h - e) > _thr(e, n):
                        V.append(viol("segregation-after-selfing", C, "heterozygosity|statistical", "heterozygosity %.6f at marker %d after %d selfing generation(s), expected %.6f" % (h, j, depth, e)))
                        break
        else:
            # four-way: each of the four founder alleles has frequency one quarter
            for j in range(m):
                for code in range(4):
                    f = float((pm[:, :, j] == code).mean())
                    ncmp += 1
                    if abs(f - 0.25) > _thr(0.25, 2 * n) * 1.5:
                        V.append(viol("one-half-transmission", C, "four-way-after-selfing|statistical", "founder %d allele has frequency %.6f at marker %d (expected 0.25)" % (code, f, j)))
                        break
                if V:
                    break
    return _out(sc, V, log, faults, probes, ncmp, g)


def _out(sc, V, log, faults, probes, ncmp, g):
    f = dict(faults)
    f.update(g.fired)
    if not sc["kind"].startswith("strat"):
        f["real_prng_design"] = 1
    trace = "%s|%s|chr%d|%s|self%s|%s|%s|%s|%s|%s|%s" % (sc["kind"], sc.get("fn") or sc.get("prot"), sc["nchr"], sc["xosrc"], sc.get("nself"), sc.get("mapfn"), sc.get("knots"),
                                                   (sc.get("mapcls") or "-") + ("/u" if sc.get("maprows") == "unsorted" else "") + ("/x" if sc.get("maphist") else ""), "remap" if sc.get("remap") else "-", "shuf" if sc.get("shuffled") else "-", "inbred" if sc.get("inbred") else "-")
    return {"violations": V, "log": log, "trace": trace, "nontrivial": ncmp > 0, "faults": f, "probes": probes,
            "sim": {"gametes": sc["N"], "frequency_comparisons": ncmp}}
