"""Fresh-interpreter execution of a C08 clause-A program (reads the scenario on stdin)."""
import json
import sys


def main():
    from sim import entropy
    entropy.install()
    sc = json.load(sys.stdin)
    import random
    import numpy
    random.seed(12345)
    numpy.random.seed(54321)
    from sim.checks import c08_repro
    X, g, _ = c08_repro.run_program(sc, sc["prefix"][0], sc["worlds"][0])
    print("C08CHILD " + json.dumps([X, g]))


if __name__ == "__main__":
    main()
