"""C15 — breeding-value matrices round-trip through scaling without loss.

Histories of taxa-axis operations and summary queries on the three
breeding-value matrix classes, built with from_numpy from raw matrices that
contain constant columns, NaN entries and large offsets.  Reference model: the
list of raw trait vectors, one per taxon entity, manipulated with plain list
operations; after every step unscale() must reproduce it.
"""
import copy
import math
import random

import numpy

from .. import compat  # noqa: F401
from ..core import viol, adig
from ..world import obj
from ..snapshot import sdig

from pybrops.popgen.bvmat.DenseBreedingValueMatrix import DenseBreedingValueMatrix
from pybrops.popgen.bvmat.DenseEstimatedBreedingValueMatrix import DenseEstimatedBreedingValueMatrix
from pybrops.popgen.bvmat.DenseGenomicEstimatedBreedingValueMatrix import DenseGenomicEstimatedBreedingValueMatrix
from pybrops.core.mat.DenseScaledMatrix import DenseScaledMatrix

PROP = "C15"
RUNS = {"quick": 80000, "thorough": 1500000}
WALL = {"quick": 200, "thorough": 2400}
RULE = ("scenario = BV class, raw matrix (1-8 taxa, 1-3 traits; column styles: plain, constant, with NaN, offset up to 1e9, tiny/huge scale), "
        "label presence, and a history of <= 10 steps: select / delete|remove / insert|incorp / adjoin|append / concat on the taxa axis (operand a BV "
        "matrix with its own location/scale or a raw ndarray; specific or generic form) interleaved with summary queries (tmax, tmin, tmean, trange, "
        "tstd, tvar, targmax, targmin; unscale True/False); distinct = (class, column styles, step kinds and forms); non-trivial = at least one "
        "structural step or query executed")
COMPONENTS = {"real": ["DenseBreedingValueMatrix, DenseEstimatedBreedingValueMatrix, DenseGenomicEstimatedBreedingValueMatrix: from_numpy, unscale, taxa-axis operations, t* summaries"],
              "stub": []}
ASSUMPTIONS = ["tolerance per cell 8*eps*(|location| + scale*|z|) plus 8 ulp of the raw value",
               "summaries are compared on NaN-free columns only (the property does not fix a NaN convention)",
               "tstd/tvar accept either the population (ddof=0) or the sample (ddof=1) convention",
               "arg-extrema may be any index attaining the extreme",
               "a raw ndarray operand is on the original scale (as the class documents for adjoin/insert)"]

CLS = {"BV": DenseBreedingValueMatrix, "EBV": DenseEstimatedBreedingValueMatrix, "GEBV": DenseGenomicEstimatedBreedingValueMatrix}
EPS = numpy.finfo(float).eps
SUMS = ["tmax", "tmin", "tmean", "trange", "tstd", "tvar", "targmax", "targmin"]


def _col(R, n, style):
    if style == "const":
        v = R.choice([0.0, 1.0, -3.5, 1e9])
        return [v] * n
    base = {"plain": 0.0, "offset": R.choice([1e3, 1e6, 1e9, -1e9]), "tiny": 0.0, "huge": 0.0, "nan": R.choice([0.0, 100.0])}[style]
    sc = {"plain": 1.0, "offset": R.choice([1.0, 1e-3]), "tiny": 1e-9, "huge": 1e12, "nan": 2.0}[style]
    out = [base + sc * R.gauss(0, 1) for _ in range(n)]
    if style == "nan":
        for i in range(n):
            if R.random() < 0.3:
                out[i] = float("nan")
    return out


def generate(R, tier):
    nt = R.choice([1, 1, 2, 3, 4, 5, 8])
    ntr = R.randint(1, 3)
    styles = [R.choice(["plain", "plain", "const", "nan", "offset", "tiny", "huge"]) for _ in range(ntr)]
    cols = [_col(R, nt, s) for s in styles]
    raw = [[cols[t][i] for t in range(ntr)] for i in range(nt)]
    steps = []
    for _ in range(R.randint(1, 10)):
        r = R.random()
        if r < 0.35:
            steps.append({"op": "query", "which": R.choice(SUMS), "unscale": R.random() < 0.7})
        else:
            op = R.choice(["select", "delete", "insert", "adjoin", "concat"])
            k = R.choice([1, 1, 2, 3])
            steps.append({"op": op, "mut": R.random() < 0.5, "generic": R.random() < 0.4, "a": [R.randrange(1000) for _ in range(5)], "k": k,
                          "argform": R.choice(["int", "negint", "list", "ndarray", "slice", "mask"]),
                          "operand": R.choice(["bv", "bv", "ndarray"]),
                          "rows": [[(float("nan") if (styles[t] == "nan" and R.random() < 0.3) else
                                     (cols[t][0] if styles[t] == "const" and R.random() < 0.5 and cols[t] and not math.isnan(cols[t][0]) else
                                      R.choice([R.gauss(0, 1), 100.0 * R.gauss(0, 1), cols[t][0] + R.gauss(0, 1) if cols[t] and not math.isnan(cols[t][0]) else 0.0])))
                                    for t in range(ntr)] for _ in range(k + 1)]})
    if R.random() < 0.12:
        # the scaling base class itself: histories of rescale / unscale / transform round trips
        sst = [{"op": R.choice(["rescale", "rescale", "unscale", "roundtrip"]), "inplace": R.random() < 0.6} for _ in range(R.randint(1, 6))]
        return {"cls": "SCALED", "raw": raw, "styles": styles, "taxa": False, "taxa_grp": False, "trait": False, "steps": sst,
                "prescaled": (None if R.random() < 0.5 else {"loc": [R.choice([0.0, 1.5, -20.0, 1e6]) for _ in range(ntr)], "scl": [R.choice([1.0, 2.0, 0.25, 1e3]) for _ in range(ntr)]})}
    return {"cls": R.choice(sorted(CLS)), "raw": raw, "styles": styles, "taxa": R.random() < 0.8, "taxa_grp": R.random() < 0.7, "trait": R.random() < 0.8,
            "via_pandas": ({"seed": R.randrange(1 << 30), "positions": R.random() < 0.4, "extra": R.random() < 0.3} if R.random() < 0.2 else None),
            "steps": steps}


def shrink(sc):
    if len(sc["raw"]) > 1:
        for i in range(len(sc["raw"])):
            c = copy.deepcopy(sc)
            del c["raw"][i]
            yield c
    ntr = len(sc["styles"])
    if ntr > 1:
        for t in range(ntr):
            c = copy.deepcopy(sc)
            c["styles"].pop(t)
            for r in c["raw"]:
                r.pop(t)
            for st in c["steps"]:
                for r in st.get("rows", []):
                    r.pop(t)
            yield c
    for i, st in enumerate(sc["steps"]):
        if st.get("k", 1) > 1:
            c = copy.deepcopy(sc)
            c["steps"][i]["k"] = 1
            yield c
        if st.get("operand") == "bv":
            c = copy.deepcopy(sc)
            c["steps"][i]["operand"] = "ndarray"
            yield c
        if st.get("generic"):
            c = copy.deepcopy(sc)
            c["steps"][i]["generic"] = False
            yield c


def _tol(o, z):
    loc = numpy.abs(numpy.asarray(o.location, dtype=float))
    scl = numpy.abs(numpy.asarray(o.scale, dtype=float))
    return 8 * EPS * (loc[None, :] + scl[None, :] * numpy.abs(z))


def _budget_of(o):
    """Rounding-error allowance of the representation ``o`` for each of its cells."""
    with numpy.errstate(all="ignore"):
        b = _tol(o, numpy.nan_to_num(o.mat, nan=0.0, posinf=0.0, neginf=0.0))
    return numpy.nan_to_num(b, nan=0.0, posinf=0.0)


def _check_state(o, rows, ix, C, V, where, budget=None):
    """unscale() reproduces the model's raw rows; NaN exactly where the entity has NaN."""
    exp = numpy.array(rows, dtype=float).reshape(len(rows), o.mat.shape[1] if o.mat.ndim == 2 else 0)
    try:
        got = o.unscale()
    except Exception as e:
        V.append(viol("unscale-reproduces-raw", C, "raises:%s" % type(e).__name__, "step %d (%s): unscale() raised %s: %s" % (ix, where, type(e).__name__, e), step=ix))
        return False
    if got.shape != exp.shape:
        V.append(viol("unscale-reproduces-raw", C, "shape", "step %d (%s): unscale() has shape %r, model has %r" % (ix, where, got.shape, exp.shape), step=ix))
        return False
    if got.size == 0:
        return True
    n0, n1 = numpy.isnan(exp), numpy.isnan(got)
    if not numpy.array_equal(n0, n1):
        V.append(viol("missing-stays-missing", C, "nan-pattern", "step %d (%s): NaN pattern %s, entities have %s" % (ix, where, n1.tolist(), n0.tolist()), step=ix))
        return False
    tol = _budget_of(o) + 8 * EPS * numpy.abs(numpy.nan_to_num(exp))
    if budget is not None:
        tol = tol + numpy.array(budget, dtype=float).reshape(exp.shape)
    bad = (numpy.abs(got - exp) > tol) & ~n0
    if bad.any():
        i, t = numpy.argwhere(bad)[0]
        V.append(viol("unscale-reproduces-raw", C, where.split(":")[0], "step %d (%s): taxon %d trait %d unscales to %r, raw value is %r (location %r scale %r)" %
                      (ix, where, i, t, float(got[i, t]), float(exp[i, t]), numpy.asarray(o.location).tolist(), numpy.asarray(o.scale).tolist()), step=ix))
        return False
    return True


def _build(cls, rows, ntr, sc, R, start):
    n = len(rows)
    raw = numpy.array(rows, dtype=float).reshape(n, ntr)
    taxa = obj(["T%d" % (start + i) for i in range(n)]) if sc["taxa"] else None
    grp = numpy.array([R.randint(1, 3) for _ in range(n)], dtype=int) if sc["taxa_grp"] else None
    trait = obj(["R%d" % t for t in range(ntr)]) if sc["trait"] else None
    vp = sc.get("via_pandas")
    if vp and start == 0 and sc["trait"] and n > 0:
        # the same raw values arriving as a data frame: trait columns in one order, requested (by name or position) in another
        import pandas
        rf = random.Random(vp["seed"])
        frame_order = list(range(ntr))
        rf.shuffle(frame_order)
        want_order = list(range(ntr))
        rf.shuffle(want_order)
        cols = {}
        if taxa is not None:
            cols["taxa"] = taxa
        if grp is not None:
            cols["taxa_grp"] = grp
        if vp.get("extra"):
            cols["note"] = numpy.arange(n, dtype=float)
        for t in frame_order:
            cols["R%d" % t] = raw[:, t]
        df = pandas.DataFrame(cols)
        tc = ["R%d" % t for t in want_order]
        if vp.get("positions"):
            tc = [int(df.columns.get_loc(c)) for c in tc]
        return cls.from_pandas(df, taxa_col="taxa" if taxa is not None else None, taxa_grp_col="taxa_grp" if grp is not None else None, trait_cols=tc), taxa, grp
    return cls.from_numpy(raw, taxa=taxa, taxa_grp=grp, trait=trait), taxa, grp


def _exec_scaled(sc):
    """DenseScaledMatrix: whatever sequence of rescale / unscale / transform round trips, the unscaled values are the raw ones."""
    ntr = len(sc["styles"])
    raw = numpy.array(sc["raw"], dtype=float).reshape(len(sc["raw"]), ntr)
    V, log, faults, probes, kinds = [], [], {}, {}, []
    C0 = "DenseScaledMatrix"
    import warnings
    with warnings.catch_warnings():
        warnings.simplefilter("ignore")
        ps = sc.get("prescaled")
        if ps:
            loc, scl = numpy.array(ps["loc"], dtype=float), numpy.array(ps["scl"], dtype=float)
            o = DenseScaledMatrix((raw - loc[None, :]) / scl[None, :], location=loc.copy(), scale=scl.copy())
            faults["constructed_prescaled"] = 1
        else:
            o = DenseScaledMatrix(raw.copy(), location=numpy.zeros(ntr), scale=numpy.ones(ntr))
        budget = 16 * EPS * (numpy.abs(numpy.nan_to_num(raw)) + (numpy.abs(numpy.asarray(o.location))[None, :] if ps else 0.0))
        nact = 0
        for ix, st in enumerate(sc["steps"]):
            name = st["op"]
            C = "%s.%s" % (C0, name)
            kinds.append("%s:%d" % (name, int(st["inplace"])))
            try:
                if name == "rescale":
                    r = o.rescale(inplace=st["inplace"])
                elif name == "unscale":
                    r = o.unscale(inplace=st["inplace"])
                else:
                    probe = numpy.nan_to_num(raw.copy())
                    t = o.transform(probe.copy(), copy=True)
                    back = o.untransform(t, copy=True)
                    tol = 16 * EPS * (numpy.abs(probe) + numpy.abs(numpy.asarray(o.location))[None, :] + numpy.abs(numpy.asarray(o.scale))[None, :] * numpy.abs(t))
                    if numpy.any(numpy.abs(back - probe) > tol):
                        V.append(viol("transform-round-trip", C0 + ".transform", "values", "step %d: untransform(transform(x)) differs from x" % ix, step=ix))
                        break
                    r = None
            except Exception as e:
                V.append(viol("scaled-op-completes", C, "raises:%s" % type(e).__name__, "step %d: %s: %s" % (ix, type(e).__name__, e), step=ix))
                break
            nact += 1
            loc, scl = numpy.asarray(o.location, dtype=float), numpy.asarray(o.scale, dtype=float)
            cur = numpy.asarray(o.mat, dtype=float) * scl[None, :] + loc[None, :]
            budget = budget + 16 * EPS * (numpy.abs(loc)[None, :] + numpy.abs(scl)[None, :] * numpy.abs(numpy.nan_to_num(numpy.asarray(o.mat, dtype=float))))
            n0, n1 = numpy.isnan(raw), numpy.isnan(cur)
            if not numpy.array_equal(n0, n1):
                V.append(viol("missing-stays-missing", C, "nan-pattern", "step %d: NaN pattern changed" % ix, step=ix))
                break
            if numpy.any((numpy.abs(cur - raw) > budget) & ~n0):
                i, t = numpy.argwhere((numpy.abs(cur - raw) > budget) & ~n0)[0]
                V.append(viol("unscale-reproduces-raw", C, "history", "step %d: after %s the stored value of cell (%d,%d) unscales to %r, raw value %r (location %s scale %s)" %
                              (ix, kinds, i, t, float(cur[i, t]), float(raw[i, t]), loc.tolist(), scl.tolist()), step=ix))
                break
            if name == "rescale" and st["inplace"]:
                for t in range(ntr):
                    col = raw[:, t]
                    if len(col) and not numpy.isnan(col).any() and numpy.all(col == col[0]) and abs(scl[t] - 1.0) > 0 and numpy.all(numpy.abs(numpy.asarray(o.mat)[:, t]) <= 64 * EPS * (1 + abs(col[0]))):
                        V.append(viol("constant-trait-unit-scale", C, "scale", "step %d: constant column %d rescaled with scale %r" % (ix, t, float(scl[t])), step=ix))
                        break
                if V:
                    break
            log.append([ix, name, adig(o.mat)])
    return _out(sc, V, log, kinds, faults, probes, nact)


def execute(sc):
    if sc["cls"] == "SCALED":
        return _exec_scaled(sc)
    cls = CLS[sc["cls"]]
    ntr = len(sc["styles"])
    R = random.Random(len(sc["raw"]) * 7919 + ntr)
    V, log, faults, probes = [], [], {}, {}
    kinds = []
    nact = 0
    rows = [list(r) for r in sc["raw"]]
    nextid = len(rows)
    C0 = cls.__name__
    import warnings
    with warnings.catch_warnings():
        warnings.simplefilter("ignore")
        try:
            cur, _, _ = _build(cls, rows, ntr, sc, R, 0)
        except Exception as e:
            V.append(viol("from-numpy", C0 + ".from_numpy", "raises:%s" % type(e).__name__, "from_numpy raised %s: %s" % (type(e).__name__, e), step=-1))
            return _out(sc, V, log, kinds, faults, probes, 0)
        styles = list(sc["styles"])
        if sc.get("via_pandas") and sc["trait"] and rows:
            # whichever order the traits come out in, each named trait must carry the raw values of that name
            try:
                perm = [int(str(nm)[1:]) for nm in cur.trait.tolist()]
            except Exception:
                perm = None
            if perm is None or sorted(perm) != list(range(ntr)):
                V.append(viol("unscale-reproduces-raw", C0 + ".from_pandas", "trait-names", "traits read from the data frame are labelled %s" % (None if cur.trait is None else cur.trait.tolist()), step=-1))
                return _out(sc, V, log, kinds, faults, probes, 0)
            rows = [[r[p] for p in perm] for r in rows]
            styles = [styles[p] for p in perm]
            faults["built_from_data_frame"] = 1
        for s in set(styles):
            faults["column_" + s] = faults.get("column_" + s, 0) + 1
        # centred / unit scale for constant columns
        for t, s in enumerate(styles):
            col = numpy.array([r[t] for r in rows], dtype=float)
            if len(col) and not numpy.isnan(col).any() and numpy.all(col == col[0]):
                if float(numpy.asarray(cur.scale)[t]) != 1.0:
                    V.append(viol("constant-trait-unit-scale", C0 + ".from_numpy", "scale", "constant column %d stored with scale %r" % (t, float(numpy.asarray(cur.scale)[t])), step=-1))
                    return _out(sc, V, log, kinds, faults, probes, 0)
                probes["constant_column"] = 1
            elif int((~numpy.isnan(col)).sum()) >= 2 and numpy.nanmax(col) != numpy.nanmin(col):
                # a non-constant trait is stored centred and with unit spread
                z = numpy.asarray(cur.mat, dtype=float)[:, t]
                lo, sc_ = float(numpy.asarray(cur.location)[t]), float(numpy.asarray(cur.scale)[t])
                tol = 64 * EPS * (abs(lo) + float(numpy.nanmax(numpy.abs(col)))) / max(abs(sc_), 1e-300) + 1e-9
                if tol < 0.05:
                    mu, sd = float(numpy.nanmean(z)), float(numpy.nanstd(z))
                    if abs(mu) > tol or abs(sd - 1.0) > tol:
                        V.append(viol("stored-centred-and-scaled", C0 + ".from_numpy", "non-constant-trait",
                                      "column %d (raw spread %.3g): stored values have mean %.3g and standard deviation %.6g (reported location %r, scale %r)" %
                                      (t, float(numpy.nanstd(col)), mu, sd, lo, sc_), step=-1))
                        return _out(sc, V, log, kinds, faults, probes, 0)
                    probes["standardisation_checked"] = 1
        if not _check_state(cur, rows, -1, C0 + ".from_numpy", V, "from_numpy"):
            return _out(sc, V, log, kinds, faults, probes, 0)
        # every value carries the rounding allowance of each representation (location/scale) it has been stored under
        budget = (_budget_of(cur) + 8 * EPS * numpy.abs(numpy.nan_to_num(numpy.array(rows, dtype=float).reshape(len(rows), ntr)))).tolist()
        for ix, st in enumerate(sc["steps"]):
            n = len(rows)
            if st["op"] == "query":
                name, un = st["which"], st["unscale"]
                C = "%s.%s" % (C0, name)
                before = sdig(cur)
                try:
                    got = getattr(cur, name)() if name.startswith("targ") else getattr(cur, name)(un)
                    got = numpy.array(got, copy=True)
                except Exception as e:
                    if n == 0:
                        continue
                    V.append(viol("summary-equals-raw", C, "raises:%s" % type(e).__name__, "step %d: %s(unscale=%s) raised %s: %s" % (ix, name, un, type(e).__name__, e), step=ix))
                    break
                kinds.append("q:%s:%d" % (name, int(un)))
                nact += 1
                if sdig(cur) != before:
                    V.append(viol("summary-leaves-object", C, "object-changed", "step %d: %s(unscale=%s) modified the matrix" % (ix, name, un), step=ix))
                    break
                if n == 0:
                    continue
                raw = numpy.array(rows, dtype=float).reshape(n, ntr)
                loc = numpy.asarray(cur.location, dtype=float)
                scl = numpy.asarray(cur.scale, dtype=float)
                vals = raw if (un or name.startswith("targ")) else numpy.array(cur.mat, dtype=float)
                bmax = numpy.max(numpy.array(budget, dtype=float).reshape(n, ntr), axis=0)
                if got.shape != (ntr,):
                    V.append(viol("summary-equals-raw", C, "shape", "step %d: %s returned shape %r" % (ix, name, got.shape), step=ix))
                    break
                for t in range(ntr):
                    col = vals[:, t]
                    if numpy.isnan(col).any():
                        continue
                    mag = (abs(loc[t]) + abs(scl[t]) * (1 + numpy.max(numpy.abs(cur.mat[:, t])))) if un else (1 + numpy.max(numpy.abs(col)))
                    tol = 16 * EPS * mag * max(n, 1) + (2 * bmax[t] if un or name.startswith("targ") else 0.0)
                    ok = True
                    if name == "targmax":
                        ok = col[int(got[t])] >= numpy.max(col) - tol
                    elif name == "targmin":
                        ok = col[int(got[t])] <= numpy.min(col) + tol
                    elif name in ("tstd", "tvar"):
                        f = numpy.std if name == "tstd" else numpy.var
                        t2 = tol * (1 if name == "tstd" else 2 * (numpy.std(col) + tol)) + 16 * EPS * f(col)
                        ok = abs(got[t] - f(col)) <= t2 or (n > 1 and abs(got[t] - f(col, ddof=1)) <= t2 * 2)
                    else:
                        ref = {"tmax": numpy.max, "tmin": numpy.min, "tmean": numpy.mean, "trange": numpy.ptp}[name](col)
                        ok = abs(got[t] - ref) <= tol
                    if not ok:
                        V.append(viol("summary-equals-raw", C, "unscale=%s" % un, "step %d: %s(unscale=%s)[%d] = %r but the %s values of that trait are %s" %
                                      (ix, name, un, t, float(got[t]), "raw" if un else "scaled", col.tolist()), step=ix))
                        break
                if V:
                    break
                continue
            # ---------------- structural step on the taxa axis
            op, mut, gen = st["op"], st["mut"], st["generic"]
            k = st["k"]
            a = st["a"]
            newrows = [list(r) for r in st["rows"][:k]]
            exp = None
            form = "%s%s" % ("gen" if gen else "spec", "-mut" if mut else "")
            if op == "select":
                idx = [a[i] % n for i in range(min(k, n))] if n else []
                # some indices given in their negative form
                given = [v - n if (a[4] >> i) & 1 else v for i, v in enumerate(idx)]
                arg = given if st["argform"] != "ndarray" else numpy.array(given, dtype=int)
                if any(v < 0 for v in given):
                    faults["negative_index"] = faults.get("negative_index", 0) + 1
                exp = [rows[i] for i in idx]
                expb = [budget[i] for i in idx]
                call = (lambda x: x.select(arg, axis=0)) if gen else (lambda x: x.select_taxa(arg))
                mut = False
                name = "select_taxa"
            elif op == "delete":
                if n == 0:
                    continue
                af = st["argform"]
                if af == "int":
                    arg, gone = a[0] % n, {a[0] % n}
                elif af == "negint":
                    arg, gone = -(a[0] % n) - 1, {n - (a[0] % n) - 1}
                elif af == "slice":
                    lo, hi = sorted((a[0] % (n + 1), a[1] % (n + 1)))
                    arg, gone = slice(lo, hi), set(range(lo, hi))
                elif af == "mask":
                    m = [bool((a[0] >> i) & 1) for i in range(n)]
                    arg, gone = numpy.array(m, dtype=bool), {i for i, b in enumerate(m) if b}
                else:
                    idx = sorted({a[i] % n for i in range(min(k, n))})
                    arg, gone = (idx if af == "list" else numpy.array(idx, dtype=int)), set(idx)
                exp = [r for i, r in enumerate(rows) if i not in gone]
                expb = [b for i, b in enumerate(budget) if i not in gone]
                name = "remove_taxa" if mut else "delete_taxa"
                if mut:
                    call = (lambda x: x.remove(arg, axis=0)) if gen else (lambda x: x.remove_taxa(arg))
                else:
                    call = (lambda x: x.delete(arg, axis=0)) if gen else (lambda x: x.delete_taxa(arg))
            else:
                if n + k > 12:
                    continue
                if st["operand"] == "bv":
                    operand, otaxa, ogrp = _build(cls, newrows, ntr, sc, R, nextid)
                    kw = {}
                    vals = operand
                    faults["operand_with_own_scale"] = faults.get("operand_with_own_scale", 0) + 1
                else:
                    _, otaxa, ogrp = _build(cls, newrows, ntr, sc, R, nextid)
                    vals = numpy.array(newrows, dtype=float).reshape(k, ntr)
                    kw = {"taxa": otaxa, "taxa_grp": ogrp}
                    faults["operand_raw_ndarray"] = faults.get("operand_raw_ndarray", 0) + 1
                nextid += k
                if st["operand"] == "bv":
                    newb = (_budget_of(operand) + 8 * EPS * numpy.abs(numpy.nan_to_num(numpy.array(newrows, dtype=float).reshape(k, ntr)))).tolist()
                else:
                    newb = (8 * EPS * numpy.abs(numpy.nan_to_num(numpy.array(newrows, dtype=float).reshape(k, ntr)))).tolist()
                if op == "adjoin":
                    exp = rows + newrows
                    expb = budget + newb
                    name = "append_taxa" if mut else "adjoin_taxa"
                    if mut:
                        call = (lambda x: x.append(vals, axis=0, **kw)) if gen else (lambda x: x.append_taxa(vals, **kw))
                    else:
                        call = (lambda x: x.adjoin(vals, axis=0, **kw)) if gen else (lambda x: x.adjoin_taxa(vals, **kw))
                elif op == "insert":
                    if st["argform"] in ("list", "ndarray") and k <= n + 1:
                        poss = sorted(random.Random(a[1]).sample(range(n + 1), k))
                        arg = poss if st["argform"] == "list" else numpy.array(poss, dtype=int)
                        exp, expb = [], []
                        for i in range(n + 1):
                            for j, p in enumerate(poss):
                                if p == i:
                                    exp.append(newrows[j])
                                    expb.append(newb[j])
                            if i < n:
                                exp.append(rows[i])
                                expb.append(budget[i])
                    else:
                        pos = a[0] % (n + 1)
                        arg = int(pos)
                        exp = rows[:pos] + newrows + rows[pos:]
                        expb = budget[:pos] + newb + budget[pos:]
                    name = "incorp_taxa" if mut else "insert_taxa"
                    if mut:
                        call = (lambda x: x.incorp(arg, vals, axis=0, **kw)) if gen else (lambda x: x.incorp_taxa(arg, vals, **kw))
                    else:
                        call = (lambda x: x.insert(arg, vals, axis=0, **kw)) if gen else (lambda x: x.insert_taxa(arg, vals, **kw))
                else:
                    if st["operand"] != "bv":
                        operand, _, _ = _build(cls, newrows, ntr, sc, R, nextid)
                        vals = operand
                    third, _, _ = _build(cls, [st["rows"][k]], ntr, sc, R, nextid + 50)
                    if st["operand"] != "bv":
                        newb = (_budget_of(vals) + 8 * EPS * numpy.abs(numpy.nan_to_num(numpy.array(newrows, dtype=float).reshape(k, ntr)))).tolist()
                    thirdb = (_budget_of(third) + 8 * EPS * numpy.abs(numpy.nan_to_num(numpy.array([st["rows"][k]], dtype=float).reshape(1, ntr)))).tolist()
                    exp = rows + newrows + [list(st["rows"][k])]
                    expb = budget + newb + thirdb
                    name = "concat_taxa"
                    mut = False
                    call = (lambda x: cls.concat([x, vals, third], axis=0)) if gen else (lambda x: cls.concat_taxa([x, vals, third]))
            C = "%s.%s" % (C0, name)
            kinds.append("%s:%s" % (name, form))
            try:
                r = call(cur)
            except Exception as e:
                V.append(viol("taxa-op-completes", C, "raises:%s" % type(e).__name__, "step %d: %s (%s) raised %s: %s" % (ix, name, form, type(e).__name__, str(e)[:200]), step=ix))
                break
            new = cur if mut else r
            nact += 1
            if not _check_state(new, exp, ix, C, V, "%s:%s" % (name, st.get("operand", "-")), expb):
                break
            if not mut and not _check_state(cur, rows, ix, C, V, "receiver-after-" + name, budget):
                break
            cur, rows = new, [list(r) for r in exp]
            budget = (numpy.array(expb, dtype=float).reshape(len(rows), ntr) + _budget_of(cur)).tolist() if rows else []
            log.append([ix, name, form, len(rows), adig(cur.mat)])
    return _out(sc, V, log, kinds, faults, probes, nact)


def _out(sc, V, log, kinds, faults, probes, nact):
    trace = "%s|%s|%s" % (sc["cls"], sorted(sc["styles"]), kinds)
    return {"violations": V, "log": log, "trace": trace, "nontrivial": nact > 0, "faults": faults, "probes": probes,
            "sim": {"steps_executed": nact}}
