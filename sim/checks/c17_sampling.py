"""C17 — sampling utilities honour their proportionality and balance guarantees.

The four functions of pybrops.core.random.sampling are called with generated
arguments under a simulator-owned generator.  Fault kinds = legal-but-rare draws
at the generator seam: SUS offset == low, == nextafter(high, low), or exactly on a
bin edge; shuffles that are the identity / a reversal / a rotation; extreme
``choice`` outcomes.  Reference: exact rational expected counts, brute-force
exchange search.
"""
import copy
from fractions import Fraction

import numpy

from .. import compat  # noqa: F401
from ..core import viol, adig
from .. import rngseam

from pybrops.core.random import sampling

PROP = "C17"
RUNS = {"quick": 150000, "thorough": 3000000}
WALL = {"quick": 150, "thorough": 1500}
RULE = ("scenario = one call of stochastic_universal_sampling / tiled_choice / axis_shuffle / outcross_shuffle with "
        "generated weights (zeros, ties, magnitudes 1e-300..1e300), sizes/shapes, option sets, cross tables, generator kind "
        "and a draw script (pass | offset low/high/bin-edge | shuffle identity/reverse/rotate | choice first/last); distinct = "
        "(function, argument-shape class, weight class, script modes fired); non-trivial = output has >= 2 elements")
COMPONENTS = {"real": ["pybrops.core.random.sampling (all four functions)", "numpy PCG64 / MT19937 behind the seam"],
              "stub": ["numpy.random.Generator / RandomState subclasses (sim.rngseam) answering scripted calls"]}
ASSUMPTIONS = ["scripted draws are restricted to values the real generator method can return for the same arguments",
               "SUS counts within 64*eps*k*n of an integer expectation accept both neighbouring integers",
               "axis_shuffle is called with non-negative axes forming a proper subset of the array's axes"]


# ------------------------------------------------------------------ generation
def _weights(R, n):
    style = R.choice(["plain", "zeros", "ties", "huge", "tiny", "mixed", "onehot", "ints"])
    if style == "ints":
        top = R.choice([4, 4, 30, 100])            # whole-number weights whose total may exceed the range of a narrow dtype
        p = [float(R.randint(0, top)) for _ in range(n)]
    elif style == "onehot":
        p = [0.0] * n
        p[R.randrange(n)] = R.choice([1.0, 1e-300, 1e300, 0.3])
    else:
        p = [R.random() for _ in range(n)]
        if style in ("zeros", "mixed"):
            p = [0.0 if R.random() < 0.35 else v for v in p]
        if style == "ties":
            v = R.random()
            p = [v if R.random() < 0.6 else w for w in p]
        if style == "huge":
            p = [v * 1e300 / n for v in p]
        if style == "tiny":
            p = [v * 1e-300 for v in p]
        if style == "mixed":
            p = [v * 10.0 ** R.randint(-12, 12) for v in p]
    if sum(p) <= 0.0:
        p[R.randrange(n)] = 1.0
    return p, style


def _shape(R, maxk=12):
    if R.random() < 0.55:
        return R.randint(1, maxk)
    return [R.randint(1, 4) for _ in range(R.choice([1, 2, 2, 3]))]


def generate(R, tier):
    fn = R.choice(["sus", "sus", "sus", "tiled", "tiled", "axis", "outcross", "outcross"])
    sc = {"fn": fn, "rng": {"kind": R.choice(["Generator", "Generator", "RandomState"]), "seed": R.randrange(1 << 30), "script": []}}
    if fn == "sus":
        n = R.randint(1, 8)
        p, style = _weights(R, n)
        size = _shape(R)
        k = int(numpy.prod(size))
        sc.update(n=n, p=p, pstyle=style, size=size)
        # whole-number weights may arrive in any numeric dtype (counts, flags)
        sc["pdtype"] = R.choice(["float64", "int64", "int32", "int16", "int8", "uint8", "uint32", "uint64", "float32"]) if style == "ints" else "float64"
        m = R.choice(["pass", "pass", "low", "high", "edge", "edge", "frac"])
        if m in ("low", "high"):
            sc["rng"]["script"].append({"method": "uniform", "mode": m})
        elif m == "frac":
            sc["rng"]["script"].append({"method": "uniform", "mode": "frac", "f": R.choice([0.5, 1e-17, 1 - 1e-16, 0.25])})
        elif m == "edge":
            # an offset that puts some pointer exactly on a cumulative bin edge
            pa = numpy.array(p)
            tot = pa.sum()
            d = tot / k
            c = numpy.sort(pa)[::-1].cumsum()
            i = R.randrange(n)
            if d > 0 and numpy.isfinite(d):
                off = float(c[i] - numpy.floor(c[i] / d) * d)
                if 0.0 <= off < d:
                    sc["rng"]["script"].append({"method": "uniform", "mode": "at", "values": [off]})
        sm = R.choice(["pass", "pass", "identity", "reverse", "rotate"])
        if sm != "pass":
            sc["rng"]["script"].append({"method": "shuffle", "mode": sm})
    elif fn == "tiled":
        n = R.randint(1, 7)
        sc.update(n=n, size=_shape(R, 20), replace=R.random() < 0.3, astyle=R.choice(["int", "str", "neg"]),
                  usep=R.random() < 0.25)
        if sc["usep"]:
            p = [R.random() + 0.01 for _ in range(n)]
            s = sum(p)
            sc["p"] = [v / s for v in p]
        cm = R.choice(["pass", "pass", "first", "last"])
        if cm != "pass":
            sc["rng"]["script"].append({"method": "choice", "mode": cm})
        sm = R.choice(["pass", "pass", "identity", "reverse", "rotate"])
        if sm != "pass":
            sc["rng"]["script"].append({"method": "shuffle", "mode": sm})
    elif fn == "axis":
        nd = R.randint(2, 4)
        shape = [R.randint(1, 4) for _ in range(nd)]
        naxis = R.randint(1, nd - 1)
        axes = R.sample(range(nd), naxis)                      # any order: the slices are the same set
        sc.update(shape=shape, axes=axes, axis_scalar=(naxis == 1 and R.random() < 0.5), dup=R.random() < 0.3, forder=R.random() < 0.25)
        sm = R.choice(["pass", "pass", "pass", "reverse", "rotate"])
        if sm != "pass":
            sc["rng"]["script"].append({"method": "shuffle", "mode": sm})
    else:
        ncross, npar = R.randint(1, 5), R.randint(1, 4)
        nind = R.randint(1, 6)
        style = R.choice(["random", "tiled", "blocks", "allsame", "pairs", "pairs"])
        if style == "random":
            tab = [[R.randrange(nind) for _ in range(npar)] for _ in range(ncross)]
        elif style == "tiled":
            flat = [i % nind for i in range(ncross * npar)]
            tab = [flat[r * npar:(r + 1) * npar] for r in range(ncross)]
        elif style == "blocks":
            flat = sorted(i % nind for i in range(ncross * npar))
            tab = [flat[r * npar:(r + 1) * npar] for r in range(ncross)]
        elif style == "pairs":
            # every cross starts as one individual paired with itself, few individuals, some used in several crosses
            who = [R.randrange(max(2, min(nind, 4))) for _ in range(ncross)]
            tab = [[w] * npar for w in who]
        else:
            tab = [[0] * npar for _ in range(ncross)]
        sc.update(table=tab, tstyle=style, layout=R.choice(["C", "C", "F", "view"]))
        sm = R.choice(["pass", "pass", "identity", "reverse", "rotate"])
        if sm != "pass":
            sc["rng"]["script"].append({"method": "shuffle", "mode": sm})
    return sc


def shrink(sc):
    if sc["rng"]["script"]:
        for i in range(len(sc["rng"]["script"])):
            c = copy.deepcopy(sc)
            del c["rng"]["script"][i]
            yield c
    if sc["rng"]["kind"] != "Generator":
        c = copy.deepcopy(sc)
        c["rng"]["kind"] = "Generator"
        yield c
    if sc["fn"] == "sus":
        if isinstance(sc["size"], list):
            c = copy.deepcopy(sc)
            c["size"] = int(numpy.prod(sc["size"]))
            yield c
        elif sc["size"] > 1:
            c = copy.deepcopy(sc)
            c["size"] -= 1
            for r in c["rng"]["script"]:
                if r["mode"] == "at":
                    break
            else:
                yield c
        if sc["n"] > 1:
            for i in range(sc["n"]):
                c = copy.deepcopy(sc)
                del c["p"][i]
                c["n"] -= 1
                if sum(c["p"]) > 0 and not any(r["mode"] == "at" for r in c["rng"]["script"]):
                    yield c
    if sc["fn"] == "outcross" and sc.get("layout", "C") != "C":
        c = copy.deepcopy(sc)
        c["layout"] = "C"
        yield c
    if sc["fn"] == "outcross":
        t = sc["table"]
        if len(t) > 1:
            for i in range(len(t)):
                c = copy.deepcopy(sc)
                del c["table"][i]
                yield c
    if sc["fn"] == "tiled":
        if isinstance(sc["size"], list):
            c = copy.deepcopy(sc)
            c["size"] = int(numpy.prod(sc["size"]))
            yield c
        elif sc["size"] > 1:
            c = copy.deepcopy(sc)
            c["size"] -= 1
            yield c


# ------------------------------------------------------------------ execution
def _offset_class(sc):
    for r in sc["rng"]["script"]:
        if r["method"] == "uniform":
            return {"at": "bin-edge", "frac": "frac"}.get(r["mode"], r["mode"])
    return "pass"


def _run_sus(sc, g, V, log):
    n, p = sc["n"], numpy.array(sc["p"], dtype=float).astype(sc.get("pdtype", "float64"))
    size = sc["size"] if isinstance(sc["size"], int) else tuple(sc["size"])
    shape = (size,) if isinstance(size, int) else size
    k = int(numpy.prod(shape))
    a = numpy.arange(n)
    p0 = p.copy()
    C = "stochastic_universal_sampling"
    oc = _offset_class(sc)
    try:
        out = sampling.stochastic_universal_sampling(a, p, size, g)
    except Exception as e:
        V.append(viol("returns-requested-draws", C, "raises:%s@offset=%s" % (type(e).__name__, oc),
                      "n=%d k=%d p=%s: %s: %s" % (n, k, sc["p"], type(e).__name__, e)))
        return
    log.append(["sus", adig(out)])
    if not isinstance(out, numpy.ndarray) or out.shape != shape:
        V.append(viol("returns-requested-draws", C, "shape@offset=%s" % oc, "shape %r, requested %r" % (getattr(out, "shape", None), shape)))
        return
    if not numpy.array_equal(p, p0):
        V.append(viol("operand-unchanged", C, "p", "weights were modified"))
    cnt = numpy.bincount(out.ravel(), minlength=n)
    tot = sum(Fraction(float(v)) for v in sc["p"])
    delta = Fraction(64 * k * n) * Fraction(numpy.finfo(float).eps)
    for i in range(n):
        w = Fraction(float(sc["p"][i]))
        if w == 0:
            if cnt[i] > 0:
                V.append(viol("zero-weight-never-selected", C, "offset=%s" % oc, "element %d has weight 0 and was drawn %d times (p=%s, k=%d)" % (i, cnt[i], sc["p"], k)))
                return
            continue
        e = w * k / tot
        lo = (e - delta).__floor__()
        hi = (e + delta).__ceil__()
        if not (lo <= int(cnt[i]) <= hi):
            V.append(viol("floor-or-ceiling-count", C, "offset=%s" % oc,
                          "element %d drawn %d times, expected count %.6g (p=%s, k=%d)" % (i, cnt[i], float(e), sc["p"], k)))
            return


def _avalues(sc):
    n = sc["n"]
    if sc["astyle"] == "int":
        return numpy.arange(n) * 3 + 1
    if sc["astyle"] == "neg":
        return -numpy.arange(n)
    return numpy.array(["o%d" % i for i in range(n)], dtype=object)


def _run_tiled(sc, g, V, log):
    a = _avalues(sc)
    a0 = a.copy()
    size = sc["size"] if isinstance(sc["size"], int) else tuple(sc["size"])
    shape = (size,) if isinstance(size, int) else size
    k = int(numpy.prod(shape))
    p = numpy.array(sc["p"]) if sc.get("usep") else None
    C = "tiled_choice"
    rem = k % sc["n"]
    if p is not None and not sc["replace"] and rem > numpy.count_nonzero(p):
        return
    try:
        out = sampling.tiled_choice(a, size, sc["replace"], p, g)
    except Exception as e:
        V.append(viol("returns-requested-draws", C, "raises:%s@replace=%s" % (type(e).__name__, sc["replace"]),
                      "n=%d size=%r: %s: %s" % (sc["n"], size, type(e).__name__, e)))
        return
    log.append(["tiled", adig(out)])
    if out.shape != shape:
        V.append(viol("returns-requested-draws", C, "shape@replace=%s" % sc["replace"], "shape %r, requested %r" % (out.shape, shape)))
        return
    if not numpy.array_equal(a, a0):
        V.append(viol("operand-unchanged", C, "a", "option array was modified"))
    flat = out.ravel().tolist()
    opts = a.tolist()
    if not set(flat) <= set(opts):
        V.append(viol("draws-from-options", C, "replace=%s" % sc["replace"], "output contains values outside the option set"))
        return
    if not sc["replace"]:
        cnt = [flat.count(o) for o in opts]
        if max(cnt) - min(cnt) > 1:
            V.append(viol("tiled-balance", C, "replace=False", "option counts %s differ by more than one (k=%d)" % (cnt, k)))


def _run_axis(sc, g, V, log):
    shape = tuple(sc["shape"])
    N = int(numpy.prod(shape))
    a = (numpy.arange(N) % 3 if sc["dup"] else numpy.arange(N)).astype(float).reshape(shape)
    if sc.get("forder"):
        a = numpy.asfortranarray(a)
    before = a.copy()
    axes = tuple(sc["axes"])
    axis = axes[0] if sc["axis_scalar"] else axes
    C = "axis_shuffle"
    try:
        r = sampling.axis_shuffle(a, axis, g)
    except Exception as e:
        V.append(viol("shuffle-within-slices", C, "raises:%s" % type(e).__name__, "shape=%r axis=%r: %s" % (shape, axis, e)))
        return
    log.append(["axis", adig(a)])
    if a.shape != shape:
        V.append(viol("shuffle-within-slices", C, "shape", "shape changed"))
        return
    import itertools
    for ix in itertools.product(*[range(shape[ax]) for ax in axes]):
        sl = [slice(None)] * len(shape)
        for ax, i in zip(axes, ix):
            sl[ax] = i
        sl = tuple(sl)
        if sorted(a[sl].ravel().tolist()) != sorted(before[sl].ravel().tolist()):
            V.append(viol("shuffle-within-slices", C, "values-moved-between-slices",
                          "slice %r holds different values after the shuffle (shape=%r axis=%r)" % (ix, shape, axis)))
            return


def _dups(t):
    return sum(len(r) - len(set(r)) for r in t)


def _run_outcross(sc, g, V, log):
    x = numpy.array(sc["table"], dtype=int)
    lay = sc.get("layout", "C")
    if lay == "F":
        x = numpy.asfortranarray(x)                       # column-major memory, same table
    elif lay == "view":
        x = numpy.concatenate([x, numpy.full((x.shape[0], 1), -1)], axis=1)[:, :-1]      # non-contiguous view of a wider array
    before = x.copy()
    C = "outcross_shuffle"
    try:
        sampling.outcross_shuffle(x, g)
    except Exception as e:
        V.append(viol("outcross", C, "raises:%s" % type(e).__name__, "table=%s: %s" % (sc["table"], e)))
        return
    log.append(["outcross", adig(x)])
    if x.shape != before.shape or sorted(x.ravel().tolist()) != sorted(before.ravel().tolist()):
        V.append(viol("outcross-multiset", C, "entries", "multiset of entries changed: %s -> %s" % (before.tolist(), x.tolist())))
        return
    d0, d1 = _dups(before.tolist()), _dups(x.tolist())
    if d1 > d0:
        V.append(viol("outcross-never-increases", C, "repeats", "repeats went from %d to %d" % (d0, d1)))
        return
    flat = x.ravel().tolist()
    npar = x.shape[1]
    for i in range(len(flat)):
        for j in range(i + 1, len(flat)):
            f = list(flat)
            f[i], f[j] = f[j], f[i]
            t = [f[r * npar:(r + 1) * npar] for r in range(x.shape[0])]
            if _dups(t) < d1:
                V.append(viol("outcross-exchange-minimal", C, "improving-exchange" if lay == "C" else "improving-exchange|layout=" + lay,
                              "exchange of entries %d and %d reduces repeats %d -> %d in %s (input %s)" % (i, j, d1, _dups(t), x.tolist(), before.tolist())))
                return


def execute(sc):
    g = rngseam.make(sc["rng"]["kind"], sc["rng"]["seed"], sc["rng"]["script"])
    V, log = [], []
    gs0 = rngseam.global_state_digest()
    {"sus": _run_sus, "tiled": _run_tiled, "axis": _run_axis, "outcross": _run_outcross}[sc["fn"]](sc, g, V, log)
    probes = {}
    if rngseam.global_state_digest() != gs0:
        probes["global_stream_touched"] = 1
    fired = dict(g.fired)
    log.append(["calls", [(m, mode) for m, _, mode in g.calls][:50]])
    if sc["fn"] == "sus":
        klass = "%s/%s|n=%d|k=%s|%s" % (sc["pstyle"], sc.get("pdtype", "float64"), sc["n"], "t" if isinstance(sc["size"], list) else "i", sorted(fired))
        nontriv = int(numpy.prod(sc["size"])) >= 2
        if any(v == 0.0 for v in sc["p"]):
            probes["sus_zero_weight_present"] = 1
    elif sc["fn"] == "tiled":
        klass = "n=%d|rep=%s|p=%s|%s|%s" % (sc["n"], sc["replace"], sc.get("usep"), "t" if isinstance(sc["size"], list) else "i", sorted(fired))
        nontriv = int(numpy.prod(sc["size"])) >= 2
        if not sc["replace"] and int(numpy.prod(sc["size"])) % sc["n"]:
            probes["tiled_remainder_nonzero"] = 1
    elif sc["fn"] == "axis":
        klass = "nd=%d|axes=%s|%s" % (len(sc["shape"]), sc["axes"], sorted(fired))
        nontriv = int(numpy.prod(sc["shape"])) >= 2
    else:
        klass = "%s|%dx%d|%s|%s" % (sc["tstyle"], len(sc["table"]), len(sc["table"][0]), sorted(fired), sc.get("layout", "C"))
        if sc.get("layout", "C") != "C":
            fired = dict(fired, **{"table_layout_" + sc["layout"]: 1})
        nontriv = len(sc["table"]) * len(sc["table"][0]) >= 2
        if _dups(sc["table"]) > 0:
            probes["outcross_input_has_repeats"] = 1
    return {"violations": V, "log": log, "trace": sc["fn"] + "|" + sc["rng"]["kind"] + "|" + klass, "nontrivial": nontriv,
            "faults": fired, "probes": probes, "sim": {"generator_calls": g.ncalls}}
