"""Determinism self-test.

For every implemented check run the first N seeds in this interpreter, then again
in a fresh interpreter with a different PYTHONHASHSEED and a different worker
count, and compare the per-run digests.  Any difference is a seam leak.

    python -m sim.selftest.determinism [--seeds N] [--props C20,C17] [--tier quick]
"""
import argparse
import json
import os
import subprocess
import sys

VERIF = os.path.dirname(os.path.dirname(os.path.dirname(os.path.abspath(__file__))))


def digests(prop, tier, vseed, n, workers):
    from sim import entropy
    entropy.install()
    from sim import core
    import importlib
    try:
        importlib.import_module(core.CHECKS[prop])
    except ModuleNotFoundError:
        return None
    import contextlib
    import io
    buf = io.StringIO()
    with contextlib.redirect_stdout(buf):
        code, agg = core.run_check(prop, tier, vseed, nruns=n, workers=workers, write_evidence=False)
    if code == 2:
        raise SystemExit("harness error in %s: %s" % (prop, buf.getvalue()[-400:]))
    return sorted(agg["digests"])


def main(argv=None):
    ap = argparse.ArgumentParser()
    ap.add_argument("--seeds", type=int, default=64)
    ap.add_argument("--props", default="")
    ap.add_argument("--tier", default="quick")
    ap.add_argument("--child", action="store_true")
    ap.add_argument("--workers", type=int, default=0)
    a = ap.parse_args(argv)
    sys.path.insert(0, VERIF)
    from sim import core
    props = [p for p in (a.props.split(",") if a.props else sorted(core.CHECKS)) if p]
    vseed = int(os.environ.get("VERIF_SEED", "0") or 0)
    if a.child:
        out = {}
        for p in props:
            d = digests(p, a.tier, vseed, a.seeds, a.workers or 3)
            if d is not None:
                out[p] = d
        print("DIGESTS " + json.dumps(out))
        return 0
    bad = 0
    mine = {}
    for p in props:
        d = digests(p, a.tier, vseed, a.seeds, a.workers or min(16, os.cpu_count() or 4))
        if d is not None:
            mine[p] = [list(x) for x in d]
    for hs, wk in (("7", 3), ("12345", 1)):
        env = dict(os.environ, PYTHONHASHSEED=hs,
                   PYTHONPATH=VERIF + os.pathsep + os.environ.get("VERIF_REPO", "/repo"))
        q = subprocess.run([sys.executable, "-m", "sim.selftest.determinism", "--child", "--seeds", str(a.seeds),
                            "--props", ",".join(mine), "--tier", a.tier, "--workers", str(wk)],
                           cwd=VERIF, env=env, capture_output=True, text=True, timeout=3000)
        line = [l for l in q.stdout.splitlines() if l.startswith("DIGESTS ")]
        if q.returncode != 0 or not line:
            print("determinism: child failed (hashseed %s): %s" % (hs, (q.stdout + q.stderr)[-800:]))
            return 2
        other = json.loads(line[0][8:])
        for p in mine:
            if other.get(p) != mine[p]:
                diff = [x for x, y in zip(mine[p], other.get(p, [])) if x != y]
                print("DETERMINISM-FAIL %s: %d of %d run digests differ (PYTHONHASHSEED=%s workers=%d), e.g. run %s"
                      % (p, len(diff), len(mine[p]), hs, wk, diff[:1]))
                bad += 1
    if not bad:
        print("determinism ok: %s x %d seeds, 3 interpreters (hash seeds 0/7/12345, workers 16/3/1)" % (",".join(mine), a.seeds))
    return 1 if bad else 0


if __name__ == "__main__":
    sys.exit(main())
