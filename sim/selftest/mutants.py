"""Sensitivity self-test: small source mutants each check must flag.

Each mutant is (id, property, file, old, new, note).  The runner copies
/repo/pybrops to a scratch directory under /dev/shm (6 MB), applies the textual
replacement, runs ``./check <prop> --runs N --no-evidence`` with VERIF_REPO pointing
at the scratch copy, records the exit code and removes the copy.  /repo itself is
never touched.

    python -m sim.selftest.mutants [ids or property ids ...] [--runs N]
"""
import os
import shutil
import subprocess
import sys

VERIF = os.path.dirname(os.path.dirname(os.path.dirname(os.path.abspath(__file__))))

M = []


def mut(id, prop, file, old, new, note="", count=1, expect="CAUGHT"):
    M.append({"id": id, "prop": prop, "file": file, "old": old, "new": new, "note": note, "count": count, "expect": expect})


# ---------------------------------------------------------------- C20
RS = "pybrops/breed/arch/RecurrentSelectionBreedingProgram.py"
mut("c20-shallow-reset", "C20", RS, "self.genome = copy.deepcopy(self.start_genome)", "self.genome = copy.copy(self.start_genome)", "reset() shallow for one container")
mut("c20-reset-alias", "C20", RS, "self.bval = copy.deepcopy(self.start_bval)", "self.bval = self.start_bval", "reset() aliases the stored container")
mut("c20-tcur-not-incremented", "C20", RS, "            self._t_cur += 1\n", "            pass\n", "time index stuck inside advance()")
mut("c20-tcur-not-reset", "C20", RS, "        self.t_cur = 0                                  # reset time", "        pass", "t_cur carries over between replicates")
mut("c20-rep-not-advanced", "C20", RS, "            lbook.rep += 1\n", "            pass\n", "logbook rep not advanced")
mut("c20-loginit-before-eval", "C20", RS, "            if loginit:\n                lbook.log_initialize(", "            if loginit and r > 0:\n                lbook.log_initialize(", "initial log skipped on first replicate")
mut("c20-mate-stale-mcfg", "C20", RS, "            lbook.log_mate(\n                mcfg = mcfg,", "            lbook.log_mate(\n                mcfg = None,", "log_mate does not see the mcfg")
mut("c20-ssel-gets-pre-eval-state", "C20", RS,
    "            self.genome, self.geno, self.pheno, self.bval, self.gmod = self._sselop.sselect(\n                genome = self._genome,\n                geno = self._geno,\n                pheno = self._pheno,",
    "            _ph = self._pheno\n            self.genome, self.geno, self.pheno, self.bval, self.gmod = self._sselop.sselect(\n                genome = self._genome,\n                geno = self._geno,\n                pheno = _ph if self._t_cur != 3 else self.start_pheno,",
    "survivor selection handed the stored initial phenotypes at t == 3 only")

# ---------------------------------------------------------------- C17
SP = "pybrops/core/random/sampling.py"
mut("c17-revert-sus-fix", "C17", SP, "    ptrs = offset + ptr_dist * numpy.arange(k)      # create exactly k pointers", "    ptrs = numpy.arange(offset, tot_fit, ptr_dist)", "reverts fix 2621f5bb (pointer count)")
mut("c17-sus-spacing", "C17", SP, "    ptr_dist = tot_fit / k ", "    ptr_dist = tot_fit / (k + 1) ", "pointer spacing tot/(k+1)")
mut("c17-sus-unsorted-cumsum", "C17", SP, "    cumsum = p[indices].cumsum()", "    cumsum = p.cumsum()", "cumulative sum not in sorted order")
mut("c17-sus-no-clamp", "C17", SP, "        while ix < ixmax and cumsum[ix] < ptr:", "        while ix < len(cumsum) - 1 and cumsum[ix] < ptr:", "clamp at last element rather than last non-zero element")
mut("c17-tiled-with-replacement", "C17", SP, "        out[(qu*noption):] = rng.choice(a, re, replace, p)", "        out[(qu*noption):] = rng.choice(a, re, True, p)", "remainder drawn with replacement")
mut("c17-tiled-short-tiles", "C17", SP, "        for i in range(qu):\n            out[(i*noption):((i+1)*noption)] = a", "        for i in range(qu):\n            out[(i*noption):((i+1)*noption)] = a if i < 3 else a[::-1][0]", "fourth and later tiles filled with one option")
mut("c17-axis-whole-array", "C17", SP, "    for s in sliceaxisix(a.shape,axis):\n        rng.shuffle(a[s])", "    for s in sliceaxisix(a.shape,axis):\n        rng.shuffle(a[s] if a.ndim < 4 else a)", "4-d arrays shuffled across slices")
mut("c17-outcross-accept-equal", "C17", SP, "            if score < gbest_score:             # if weighted score is better", "            if score < gbest_score or (score == gbest_score and len(xravel) > 14 and i == 0 and j == 1):", "accepting an equal exchange makes the climber loop forever: expected outcome is a run time-out (exit 2), not exit 0", expect="NONZERO")
mut("c17-outcross-early-stop", "C17", SP, "        iterate = not local_optima              # update whether to continue climbing", "        iterate = (not local_optima) and gbest_score > 1", "stops climbing when one repeat is left")
mut("c17-outcross-half-pairs", "C17", SP, "for j in range(i+1, len(xravel))])", "for j in range(i+1, min(len(xravel), i+9))])", "exchange pairs further than 8 apart never tried")

# ---------------------------------------------------------------- C01
MU = "pybrops/breed/prot/mate/util.py"
CU = "pybrops/core/util/mate.py"
mut("c01-xo-le", "C01", MU, "xoix = numpy.flatnonzero(rnd[i] < xoprob)", "xoix = numpy.flatnonzero(rnd[i] <= xoprob)", "crossover when draw == probability (incl. 0)")
mut("c01-core-xo-le", "C01", CU, "xoix = numpy.flatnonzero(rnd[i] < xoprob)", "xoix = numpy.flatnonzero(rnd[i] <= xoprob)", "same in core.util.mate")
mut("c01-swap-fsel-msel", "C01", "pybrops/breed/prot/mate/TwoWayCross.py", "hgeno = mat_mate(geno, geno, fsel, msel, xoprob, self.rng)", "hgeno = mat_mate(geno, geno, msel, fsel, xoprob, self.rng)", "female/male swapped")
mut("c01-phase-not-alternated", "C01", MU, "            phase = 1 - phase\n", "            phase = 1 - phase if spix % 5 else phase\n", "phase not alternated at every fifth marker -> still a mosaic; only C02 can see it", expect="MISSED")
mut("c01-stix-off-by-one", "C01", MU, "            stix = spix\n", "            stix = spix + (1 if spix == 7 else 0)\n", "copy boundary off by one at marker 7 (uninitialised cell)")
mut("c01-array-counts-2w", "C01", "pybrops/breed/prot/mate/TwoWayCross.py", "        msel = numpy.repeat(xconfig[:,1], nmating * nprogeny)", "        msel = numpy.repeat(xconfig[:,1], (nmating * nprogeny)[::-1])", "male repeats use reversed per-cross counts")
mut("c01-3w-recurrent-wrong-col", "C01", "pybrops/breed/prot/mate/ThreeWayCross.py", "rsel = numpy.repeat(xconfig[:,0], nmating * nprogeny)", "rsel = numpy.repeat(xconfig[:,1], nmating * nprogeny)", "recurrent parent taken from the female column", count=0)
mut("c01-family-misaligned", "C01", "pybrops/breed/prot/mate/FourWayDHCross.py", "            numpy.repeat(nprogeny, nmating)\n        )\n        self.family_counter += nfam", "            numpy.repeat(nprogeny, nmating)[::-1]\n        )\n        self.family_counter += nfam", "family label repeat counts reversed")
mut("c01-dh-not-doubled", "C01", MU, "    progeny = numpy.stack([gamete, gamete])\n", "    progeny = numpy.stack([gamete, mat_meiosis(geno, sel, xoprob, rng)])\n", "DH built from two independent gametes")
mut("c01-selfing-uses-parents", "C01", "pybrops/breed/prot/mate/TwoWayDHCross.py", "            hgeno = mat_mate(hgeno, hgeno, asel, asel, xoprob, self.rng)", "            hgeno = mat_mate(hgeno, geno, asel, fsel, xoprob, self.rng)", "selfing generation backcrosses to the female instead: labels stay within the cross union, so only the segregation clause of C02 can see it", expect="MISSED")
mut("c01-counter-not-advanced", "C01", "pybrops/breed/prot/mate/SelfCross.py", "        self.progeny_counter += progcnt", "        self.progeny_counter += max(progcnt - 1, 0)", "progeny counter advances by one too few")
mut("c01-xoprob-not-carried", "C01", "pybrops/breed/prot/mate/ThreeWayDHCross.py", "            vrnt_xoprob = pgmat.vrnt_xoprob,", "            vrnt_xoprob = pgmat.vrnt_xoprob * 1.0 if pgmat.nvrnt < 9 else pgmat.vrnt_xoprob[::-1].copy(),", "crossover probabilities reversed in progeny with >= 9 markers")
mut("c01-parent-mutated", "C01", "pybrops/breed/prot/mate/FourWayCross.py", "        geno = pgmat.mat\n", "        geno = pgmat.mat\n        if len(xconfig) == 5: geno[0,0,0] = geno[1,0,0]\n", "parent matrix written when there are exactly 5 crosses")
mut("c01-revert-hapref-3wdh", "C01", "pybrops/breed/prot/mate/ThreeWayDHCross.py", "            vrnt_hapref = pgmat.vrnt_hapref,\n", "", "reverts fix 84ec3ecd at one site (reference alleles not forwarded)")
mut("c01-hapref-from-hapalt-4wdh", "C01", "pybrops/breed/prot/mate/FourWayDHCross.py", "            vrnt_hapref = pgmat.vrnt_hapref,", "            vrnt_hapref = pgmat.vrnt_hapalt,", "reference alleles filled from the alternative alleles")

# ---------------------------------------------------------------- C08
PR = "pybrops/core/random/prng.py"
mut("c08-seed-skips-numpy", "C08", PR, "    numpy.random.seed(py_random.randint(0, 2**32-1))    # seed numpy.random with 4 bytes of entropy", "    py_random.randint(0, 2**32-1)", "seed() no longer seeds numpy.random")
mut("c08-seed-zero-is-none", "C08", PR, "    py_random.seed(s)                                   # seed random module", "    py_random.seed(s or None)", "seed(0) treated as seed(None)")
mut("c08-spawn-os-entropy", "C08", PR, "        out = [Generator(BitGenerator(py_random.randint(0, 2**sbits-1))) for _ in range(n)]", "        out = [Generator(BitGenerator(py_random.randint(0, 2**sbits-1))) for _ in range(n-1)] + [numpy.random.default_rng()] if n else []", "last spawned stream seeded from OS entropy")
mut("c08-meiosis-global", "C08", "pybrops/breed/prot/mate/util.py", "    rnd = rng.uniform(0, 1, gshape)", "    rnd = numpy.random.uniform(0, 1, gshape)", "meiosis draws from the global stream although given rng")
mut("c08-pheno-err-global", "C08", "pybrops/breed/prot/pt/G_E_Phenotyping.py", "err_effect = self.rng.multivariate_normal(err_mean, err_cov, ntaxa)", "err_effect = numpy.random.multivariate_normal(err_mean, err_cov, ntaxa)", "error term from the global stream")
mut("c08-outcross-global-shuffle", "C08", "pybrops/core/random/sampling.py", "        rng.shuffle(exchix)                     # shuffle exchange indices", "        global_prng.shuffle(exchix)", "outcross_shuffle shuffles with the global stream")
mut("c08-revert-pymoo-seed", "C08", "pybrops/opt/algo/NSGA2RealGeneticAlgorithm.py", "            copy_termination = False,\n            seed = int.from_bytes(self.rng.bytes(4), \"little\")", "            copy_termination = False", "reverts fix af96815d for one optimiser")
mut("c08-seed-from-global", "C08", "pybrops/opt/algo/IntegerGeneticAlgorithm.py", "seed = int.from_bytes(self.rng.bytes(4), \"little\")", "seed = int(numpy.random.randint(0, 2**31-1))", "pymoo seed taken from the global stream instead of self.rng")
mut("c08-revert-selprot-rng", "C08", "pybrops/breed/prot/sel/SubsetSelectionProtocol.py", "                xconfig_decn = sosoln.soln_decn[0],\n                rng = self.rng", "                xconfig_decn = sosoln.soln_decn[0],\n                rng = None", "reverts fix 49bba688 at one site")
mut("c08-hc-time-tiebreak", "C08", "pybrops/opt/algo/SteepestDescentSubsetHillClimber.py", "        gbest_soln = self.rng.choice(prob.decn_space, prob.ndecn, replace = False)", "        import time\n        gbest_soln = self.rng.choice(prob.decn_space, prob.ndecn, replace = False)\n        if int(time.time()) % 2: gbest_soln = gbest_soln[::-1].copy()", "start solution order depends on the wall clock")
mut("c08-xconfig-cache", "C08", "pybrops/breed/prot/sel/cfg/SubsetSelectionConfiguration.py", "        outcross_shuffle(out, rng = self.rng)", "        outcross_shuffle(out, rng = self.rng if len(out) != 3 else None)", "three-cross configurations shuffled with the global stream")
mut("c08-revert-embv-loopvar", "C08", "pybrops/breed/prot/sel/prob/ExpectedMaximumBreedingValueSelectionProblem.py", "            for _ in range(nrep):\n                # create progeny", "            for i in range(nrep):\n                # create progeny", "reverts fix 8dbcad0e (EMBV rows left uninitialised)")
mut("c08-revert-setga-sample", "C08", "pybrops/opt/algo/UnconstrainedSetGeneticAlgorithm.py", "        return [individuals[i] for i in self.rng.choice(len(individuals), n, replace = False)]", "        return random.sample(individuals, n)", "reverts fix ced174b2 (legacy set GA samples with Python's global stream)")

# ---------------------------------------------------------------- C16
H5 = "pybrops/core/util/h5py.py"
mut("c16-revert-h5-fix", "C16", H5, "            if (fieldname in h5file) and overwrite:\n                del h5file[fieldname]\n            continue", "            continue", "reverts the stale-field fix")
mut("c16-writer-drops-field", "C16", "pybrops/popgen/gmat/DenseGenotypeMatrix.py", '            "vrnt_mask"         : self.vrnt_mask,\n            "ploidy"            : self.ploidy,', '            "ploidy"            : self.ploidy,', "vrnt_mask left out of the HDF5 writer")
mut("c16-deepcopy-shares-mat", "C16", "pybrops/core/mat/DenseTaxaMatrix.py", "            mat = copy.deepcopy(self.mat, memo),\n            taxa = copy.deepcopy(self.taxa, memo),\n            taxa_grp = copy.deepcopy(self.taxa_grp, memo)", "            mat = copy.deepcopy(self.mat, memo),\n            taxa = copy.deepcopy(self.taxa, memo),\n            taxa_grp = self.taxa_grp", "deep copy shares taxa_grp with its source")
mut("c16-copy-loses-group-metadata", "C16", "pybrops/core/mat/DenseTaxaMatrix.py", "        out.taxa_grp_len = copy.deepcopy(self.taxa_grp_len, memo)", "        out.taxa_grp_len = None if self.ntaxa == 3 else copy.deepcopy(self.taxa_grp_len, memo)", "group lengths dropped from deep copies of 3-taxon matrices")
mut("c16-vcf-phase-swapped", "C16", "pybrops/popgen/gmat/DensePhasedGenotypeMatrix.py", "            mat.append(phases[:,0:2].copy())", "            mat.append(phases[:,1::-1].copy())", "VCF import swaps the two phases")
mut("c16-vcf-name-from-pos", "C16", "pybrops/popgen/gmat/DenseGenotypeMatrix.py", "vrnt_name.append(str(variant.ID))", "vrnt_name.append(str(variant.ID) if variant.POS % 7 else str(variant.POS))", "variant id replaced by its position when POS is a multiple of 7")
mut("c16-h5-reader-wrong-dtype", "C16", "pybrops/popgen/bvmat/DenseBreedingValueMatrix.py", 'data["scale"] = h5py_File_read_ndarray(h5file, groupname + "scale")', 'data["scale"] = h5py_File_read_ndarray(h5file, groupname + "scale").astype("float32").astype(float)', "scale read through float32", count=0)
mut("c16-bv-csv-scaled", "C16", "pybrops/popgen/bvmat/DenseBreedingValueMatrix.py", "        df = self.to_pandas(", "        unscale = unscale and self.ntaxa != 2\n        df = self.to_pandas(", "to_csv ignores unscale for two-taxon matrices", count=0)
mut("c16-vmat-pandas-transposed", "C16", "pybrops/model/vmat/DenseTwoWayDHAdditiveGeneticVarianceMatrix.py", "female_data   = df.iloc[:,female_colix  ].to_numpy(dtype = object)\n        male_data     = df.iloc[:,male_colix    ].to_numpy(dtype = object)", "female_data   = df.iloc[:,male_colix  ].to_numpy(dtype = object)\n        male_data     = df.iloc[:,female_colix    ].to_numpy(dtype = object)", "female/male columns exchanged by the reader")

# ---------------------------------------------------------------- C03
TM = "pybrops/core/mat/DenseTaxaMatrix.py"
VM = "pybrops/core/mat/DenseVariantMatrix.py"
mut("c03-select-drops-grp-order", "C03", TM, "            taxa_grp = numpy.take(taxa_grp, indices, axis = 0)\n\n        out = self.__class__(", "            taxa_grp = numpy.take(taxa_grp, numpy.sort(indices), axis = 0)\n\n        out = self.__class__(", "select_taxa takes group labels in sorted index order")
mut("c03-append-keeps-metadata", "C03", TM, "            self._taxa_grp = numpy.append(self._taxa_grp, taxa_grp, axis = 0)\n\n        # reset metadata\n        self._taxa_grp_len = None", "            self._taxa_grp = numpy.append(self._taxa_grp, taxa_grp, axis = 0)\n\n        # reset metadata\n        pass", "append_taxa keeps stale group lengths")
mut("c03-revert-reorder-reset", "C03", VM, "        self.vrnt_chrgrp_name = None\n        self.vrnt_chrgrp_stix = None\n        self.vrnt_chrgrp_spix = None\n        self.vrnt_chrgrp_len = None\n\n        # reorder arrays", "        # reorder arrays", "reverts fix 86cf1511 for variants")
mut("c03-revert-generic-incorp", "C03", "pybrops/core/mat/DenseTraitMatrix.py", "            self.incorp_trait(\n", "            self.incorp(\n", "reverts fix c657b065 for traits")
mut("c03-revert-scalar-insert", "C03", VM, "        if isinstance(obj, (int, numpy.integer)):\n            obj = [obj]\n        values = numpy.insert(self._mat, obj, values, axis = self.vrnt_axis)", "        values = numpy.insert(self._mat, obj, values, axis = self.vrnt_axis)", "reverts fix f7d18d52 in insert_vrnt")
mut("c03-revert-square-trait-labels", "C03", "pybrops/core/mat/DenseSquareTaxaTraitMatrix.py", '        kwargs.setdefault("trait", self._trait)\n        return super(DenseSquareTaxaTraitMatrix, self).select_taxa(indices, **kwargs)', '        return super(DenseSquareTaxaTraitMatrix, self).select_taxa(indices, **kwargs)', "reverts fix 648b0439 for select_taxa")
mut("c03-revert-bv-append", "C03", "pybrops/popgen/bvmat/DenseBreedingValueMatrix.py", "        self._assign_taxa_op_result(self.adjoin_taxa(values, taxa = taxa, taxa_grp = taxa_grp, **kwargs))", "        super(DenseBreedingValueMatrix, self).append_taxa(values, taxa = taxa, taxa_grp = taxa_grp, **kwargs)", "reverts the BV append fix")
mut("c03-remove-keeps-grp", "C03", TM, "            self._taxa_grp = numpy.delete(self._taxa_grp, obj, axis = 0)", "            self._taxa_grp = numpy.delete(self._taxa_grp, obj, axis = 0) if self.ntaxa != 4 else numpy.delete(self._taxa_grp[::-1], obj, axis = 0)", "remove_taxa deletes from the reversed group array for 4-taxon matrices", count=0)
mut("c03-vrnt-name-misordered", "C03", VM, "            vrnt_name = numpy.take(vrnt_name, indices, axis = 0)", "            vrnt_name = numpy.take(vrnt_name, indices[::-1] if len(indices) == 3 else indices, axis = 0)", "select_vrnt reverses marker names for 3-element selections", count=0)
mut("c03-group-metadata-before-sort", "C03", TM, "            uniq = numpy.unique(self._taxa_grp, return_index = True, return_counts = True)", "            uniq = numpy.unique(self._taxa_grp if self.ntaxa != 5 else self._taxa_grp[::-1], return_index = True, return_counts = True)", "group boundaries computed on the reversed labels for 5 taxa")
mut("c03-square-delete-one-axis", "C03", "pybrops/core/mat/DenseSquareTaxaMatrix.py", "        for axis in self.square_taxa_axes:\n            mat = numpy.delete(mat, obj, axis = axis)", "        for axis in self.square_taxa_axes[:1]:\n            mat = numpy.delete(mat, obj, axis = axis)", "square delete_taxa touches the first taxa axis only", count=0)
mut("c03-sort-drops-mask", "C03", VM, "            self._vrnt_mask = self._vrnt_mask[indices]      # reorder variant mask array", "            pass", "reorder_vrnt leaves the variant mask in the old order")
mut("c03-concat-label-order", "C03", TM, "        taxa_ls = [m.taxa for m in mats]", "        taxa_ls = [m.taxa for m in mats][::-1]", "concat_taxa concatenates taxa names in reverse matrix order", count=0)

# ---------------------------------------------------------------- C15
BV = "pybrops/popgen/bvmat/DenseBreedingValueMatrix.py"
mut("c15-unscale-no-location", "C15", BV, "        return (self._scale * self._mat) + self._location", "        return (self._scale * self._mat) + (self._location if self.ntaxa != 3 else 0.0)", "unscale drops the location for 3-taxon matrices")
mut("c15-nanmean-to-mean", "C15", BV, "        location = numpy.nanmean(mat, axis = 0)", "        location = numpy.mean(mat, axis = 0)", "NaN-unsafe mean in from_numpy: one missing value wipes the trait")
mut("c15-zero-scale-kept", "C15", BV, "        scale[scale == 0.0] = 1.0", "        scale[scale == 0.0] = 1.0 if len(mat) != 2 else 0.0", "constant columns of 2-taxon matrices keep scale 0 (division by zero)")
mut("c15-tmin-is-tmax", "C15", BV, "        out = self._mat.min(axis = self.taxa_axis)   # get minimum", "        out = self._mat.min(axis = self.taxa_axis) if self.ntrait != 2 else self._mat.max(axis = self.taxa_axis)", "tmin returns the maximum for two-trait matrices")
mut("c15-tmax-mutates", "C15", BV, "        out = self._mat.max(axis = self.taxa_axis)   # get maximum", "        out = self._mat.max(axis = self.taxa_axis) if self.ntaxa != 1 else self._mat[0]", "tmax(unscale=True) scales a view of the matrix in place for single-taxon matrices")
mut("c15-revert-tstd", "C15", BV, "        out = self._mat.std(axis = self.taxa_axis)   # get standard deviation\r\n        if unscale:\r\n            out *= self._scale", "        out = self._scale if unscale else self._mat.std(axis = self.taxa_axis)", "reverts the tstd fix")
mut("c15-revert-append", "C15", BV, "        self._assign_taxa_op_result(self.adjoin_taxa(values, taxa = taxa, taxa_grp = taxa_grp, **kwargs))", "        super(DenseBreedingValueMatrix, self).append_taxa(values, taxa = taxa, taxa_grp = taxa_grp, **kwargs)", "reverts the append_taxa fix")
mut("c15-trange-not-scaled", "C15", BV, "        out = numpy.ptp(self._mat, axis = self.taxa_axis)    # get range\r\n        if unscale:", "        out = numpy.ptp(self._mat, axis = self.taxa_axis)    # get range\r\n        if unscale and self.ntaxa != 4:", "trange(unscale=True) left on the stored scale for 4 taxa")
mut("c15-delete-restandardise-bug", "C15", BV, "        mat = self.unscale()\r\n", "        mat = self.unscale() if self.ntaxa != 5 else self.mat\r\n", "a non-mutating taxa op re-standardises the already scaled values for 5 taxa", count=0)

# ---------------------------------------------------------------- C10
GM = "pybrops/model/gmod/DenseAdditiveLinearGenomicModel.py"
mut("c10-revert-afreq", "C10", "pybrops/popgen/gmat/DensePhasedGenotypeMatrix.py", "        out = self._mat.sum((self.phase_axis,self.taxa_axis)) / (self.ploidy * self.ntaxa)", "        out = (1.0 / (self.ploidy * self.ntaxa)) * self._mat.sum((self.phase_axis,self.taxa_axis))", "reverts fix 7da493dc for phased matrices")
mut("c10-usl-branches-swapped", "C10", GM, "            p > 0.0,            # +allele: 1 if we have at least one +allele\r\n            p >= 1.0            # -allele: 1 if we have fixation for -allele", "            p >= 1.0,\r\n            p > 0.0", "usl uses the lsl conditions")
mut("c10-lsl-strict", "C10", GM, "            p >= 1.0,           # +allele: 1 if we have fixation for +allele", "            p > 1.0,", "lsl never sees a fixed favourable allele", count=0)
mut("c10-ploidy-dropped", "C10", GM, "        out = (float(ploidy) * self.u_a * uslgeno).sum(0)", "        out = (self.u_a * uslgeno).sum(0)", "usl forgets the ploidy factor")
mut("c10-intercept-omitted", "C10", GM, "            # add location to usl\r\n            # (1,t) --ravel--> (t,)\r\n            # (t,) + (t,) -> (t,)\r\n            out += location.ravel()", "            pass", "usl(unscale=True) without the intercept", count=0)
mut("c10-mutation-in-meiosis", "C10", "pybrops/breed/prot/mate/util.py", "        gamete[i,stix:] = geno[phase,s,stix:]\n", "        gamete[i,stix:] = geno[phase,s,stix:]\n        if len(sel) == 7 and i == 3: gamete[i,0] = 1 - gamete[i,0]\n", "a new allele appears in the fourth gamete of batches of seven")
mut("c10-usl-ndarray-rounding", "C10", GM, "            p = gtobj.sum(0) / (ploidy * gtobj.shape[0])            # get allele frequencies (exactly 1.0 at fixation)", "            p = (1.0 / (ploidy * gtobj.shape[0])) * gtobj.sum(0)", "reverts the fix in the ndarray branches", count=4)

# ---------------------------------------------------------------- C06
HC = "pybrops/opt/algo/SteepestDescentSubsetHillClimber.py"
mut("c06-revert-hc-start", "C06", HC, "gbest_soln = self.rng.choice(prob.decn_space, prob.ndecn, replace = False)", "gbest_soln = self.rng.choice(prob.decn_space, prob.ndecn)", "reverts fix 138aad98")
mut("c06-hc-stops-early", "C06", HC, "            gbest_cv = best_cv\n", "            gbest_cv = best_cv\n            if len(gbest_soln) == 3: break\n", "three-member climbs stop after the first exchange")
mut("c06-hc-stale-objective", "C06", HC, "            gbest_obj, gbest_ineqcv, gbest_eqcv = best_obj, best_ineqcv, best_eqcv\n            gbest_score = best_score", "            gbest_obj, gbest_ineqcv, gbest_eqcv = (best_obj, best_ineqcv, best_eqcv) if len(wrkss) != 2 else (gbest_obj, gbest_ineqcv, gbest_eqcv)\n            gbest_score = best_score", "reported objective not updated when two candidates are left outside")
mut("c06-sorting-wrong-end", "C06", "pybrops/opt/algo/SortingSubsetOptimizationAlgorithm.py", "        gbest_ix = ix[0:ndecn,0]", "        gbest_ix = ix[0:ndecn,0] if ndecn != 2 else ix[-2:,0]", "two-member problems get the two worst candidates")
mut("c06-nsga2-returns-population", "C06", "pybrops/opt/algo/NSGA2SubsetGeneticAlgorithm.py", "            nsoln = len(res.X)\n            soln_decn = res.X\n            soln_obj = res.F\n            soln_ineqcv = res.G\n            soln_eqcv = res.H", "            nsoln = len(res.pop)\n            soln_decn = res.pop.get('X')\n            soln_obj = res.pop.get('F')\n            soln_ineqcv = res.pop.get('G')\n            soln_eqcv = res.pop.get('H')", "whole final population returned instead of the front")
mut("c06-ga-objective-of-other-individual", "C06", "pybrops/opt/algo/RealGeneticAlgorithm.py", "            soln_obj = numpy.stack([res.F])", "            soln_obj = numpy.stack([res.pop.get('F')[-1]])", "objective taken from another individual")
mut("c06-sampling-with-replacement", "C06", "pybrops/opt/algo/SubsetGeneticAlgorithm.py", "            sampling = SubsetRandomSampling(setspace = prob.decn_space),", "            sampling = SubsetRandomSampling(setspace = prob.decn_space, replace = True),", "initial subsets sampled with replacement")
mut("c06-problem-mutated", "C06", "pybrops/opt/algo/SortingSubsetOptimizationAlgorithm.py", "        gbest_soln = prob.decn_space[gbest_ix]", "        gbest_soln = prob.decn_space[gbest_ix]\n        if ndecn == 3: prob.decn_space[:] = prob.decn_space[::-1]", "candidate array reversed in place for three-member problems")
mut("c06-revert-mutator-fix", "C06", "pybrops/opt/algo/pymoo_addon.py", "        Xhc[np.arange(nhcstep),lociix] = alleles[alleleix] # one exchanged locus per candidate", "        Xhc[:,lociix] = alleles[alleleix]", "reverts the MutatorA/B fix", count=2)
mut("c06-integer-ga-float", "C06", "pybrops/opt/algo/IntegerGeneticAlgorithm.py", "            soln_decn = numpy.stack([res.X])", "            soln_decn = numpy.stack([res.X]) + 0.25", "integer solutions shifted off the lattice", count=0)
mut("c06-revert-legacy-hc-start", "C06", "pybrops/opt/algo/UnconstrainedSteepestAscentSetHillClimber.py", "        gbest_soln = self.rng.choice(sspace, (k,), replace = False)", "        gbest_soln = self.rng.choice(sspace, (k,))", "reverts fix f652506e (legacy hill-climber start drawn with replacement)")
mut("c06-pareto-keeps-tied-dominated", "C06", "pybrops/core/util/pareto.py", "        ndpt_mask = numpy.any(fmat > fmat[pt_ix], axis=1)\n        ndpt_mask[pt_ix] = True", "        ndpt_mask = numpy.any(fmat >= fmat[pt_ix], axis=1)", "Pareto filter keeps points that only tie the current point in one objective")

# ---------------------------------------------------------------- C14
GE = "pybrops/breed/prot/pt/G_E_Phenotyping.py"
MB = "pybrops/breed/prot/bv/MeanPhenotypicBreedingValue.py"
mut("c14-h2-formula", "C14", GE, "        self.var_err = (1.0 - h2) / h2 * var_A", "        self.var_err = (1.0 - h2) * var_A", "var_err = (1-h2)*var_A")
mut("c14-err-cov-from-rep", "C14", GE, "        err_cov = numpy.diag(self.var_err)", "        err_cov = numpy.diag(self.var_rep)", "error draws use the replicate variance")
mut("c14-env-cov-sd", "C14", GE, "        env_cov = numpy.diag(self.var_env)", "        env_cov = numpy.diag(numpy.sqrt(self.var_env))", "environment covariance built from standard deviations")
mut("c14-labels-misaligned", "C14", GE, "                taxa_ls.append(taxa)", "                taxa_ls.append(taxa if env != 1 else taxa[::-1])", "taxon names reversed in the second environment")
mut("c14-rep-not-added", "C14", GE, "                value = mat + env_effect[None,:] + rep_effect[None,:] + err_effect", "                value = mat + env_effect[None,:] + (rep_effect[None,:] if rep != 2 else 0.0) + err_effect", "third replicate lacks its replicate effect")
mut("c14-grp-from-position", "C14", GE, "                    taxa_grp_ls.append(taxa_grp)", "                    taxa_grp_ls.append(taxa_grp if rep == 0 else numpy.roll(taxa_grp, 1))", "group labels rotated in later replicates")
mut("c14-bv-median", "C14", MB, '            dict((trait,"mean") for trait in self.trait_cols)', '            dict((trait,"median") for trait in self.trait_cols)', "median instead of mean")
mut("c14-bv-by-position", "C14", MB, "                ix = agg_df_taxa_hashtable[taxon]   # get index from hash table", "                ix = agg_df_taxa_hashtable[taxon] if ntaxa != 3 else min(i, len(agg_df_taxa)-1)", "three-taxon genotype matrices are aligned by position")
mut("c14-bv-missing-zero", "C14", MB, "        mat = numpy.full((ntaxa,ntrait), numpy.nan, dtype = float)", "        mat = numpy.full((ntaxa,ntrait), 0.0, dtype = float)", "unphenotyped taxa reported as 0")
mut("c14-rep-shared-in-env", "C14", GE, "                rep_effect = self.rng.multivariate_normal(rep_mean, rep_cov)", "                rep_effect = self.rng.multivariate_normal(rep_mean, rep_cov) if rep == 0 else rep_effect", "one replicate effect reused for all replicates of an environment")
mut("c14-genotypic-value-cell-mean-dropped", "C14", "pybrops/model/gmod/DenseAdditiveLinearGenomicModel.py", "        Xstar[0,1:] = 1/nfixed", "        Xstar[0,1:] = 0", "genotypic values ignore the cell mean of the non-intercept fixed effects")

# ---------------------------------------------------------------- C02
mut("c02-fixed-start-phase", "C02", MU, "        xoix = numpy.flatnonzero(rnd[i] < xoprob)", "        xoix = numpy.flatnonzero(rnd[i,1:] < xoprob[1:]) + 1", "every gamete starts on copy 0")
mut("c02-one-row-reused", "C02", CU, "        xoix = numpy.flatnonzero(rnd[i] < xoprob)", "        xoix = numpy.flatnonzero(rnd[0] < xoprob)", "one random row decides every gamete")
mut("c02-probabilities-shifted", "C02", MU, "        xoix = numpy.flatnonzero(rnd[i] < xoprob)", "        xoix = numpy.flatnonzero(rnd[i] < numpy.roll(xoprob, 1))", "crossover probabilities applied one marker late")
mut("c02-phase-not-alternated", "C02", MU, "            phase = 1 - phase\n", "            phase = 1 - phase if spix % 5 else phase\n", "phase not alternated at every fifth marker")
mut("c02-kosambi-for-haldane", "C02", "pybrops/popgen/gmap/HaldaneMapFunction.py", "        r = 0.5 * (1.0 - numpy.exp(-2.0 * d))", "        r = 0.5 * numpy.tanh(2.0 * d)", "Haldane map function computes Kosambi's formula")
mut("c02-selfing-is-backcross", "C02", "pybrops/breed/prot/mate/TwoWayDHCross.py", "            hgeno = mat_mate(hgeno, hgeno, asel, asel, xoprob, self.rng)", "            hgeno = mat_mate(hgeno, geno, asel, fsel, xoprob, self.rng)", "selfing generation backcrosses to the female")
mut("c02-crossover-suppressed", "C02", CU, "    rnd = rng.uniform(0, 1, gshape)", "    rnd = numpy.sqrt(rng.uniform(0, 1, gshape))", "draws biased towards 1: fewer crossovers than the probabilities say")
mut("c02-interference", "C02", MU, "        for spix in xoix:\n", "        xoix = xoix[numpy.concatenate([[True], numpy.diff(xoix) > 1])] if len(xoix) else xoix\n        for spix in xoix:\n", "crossovers in adjacent intervals suppress each other (interference)")
mut("c02-4wdh-final-meiosis-capped", "C02", "pybrops/breed/prot/mate/FourWayDHCross.py", "        dhgeno = mat_dh(dihgeno, psel, xoprob, self.rng)", "        dhgeno = mat_dh(dihgeno, psel, numpy.minimum(xoprob, 0.25), self.rng)", "doubled haploids of four-way hybrids recombine with probabilities capped at 0.25")
mut("c02-3wdh-final-meiosis-halved", "C02", "pybrops/breed/prot/mate/ThreeWayDHCross.py", "        dhgeno = mat_dh(bcgeno, psel, xoprob, self.rng)", "        dhgeno = mat_dh(bcgeno, psel, 0.5 * xoprob, self.rng)", "doubled haploids of three-way hybrids recombine half as often")
mut("c02-4w-hybrid-meiosis-capped", "C02", "pybrops/breed/prot/mate/FourWayCross.py", "        hgeno = mat_mate(abgeno, cdgeno, absel, cdsel, xoprob, self.rng)", "        hgeno = mat_mate(abgeno, cdgeno, absel, cdsel, numpy.minimum(xoprob, 0.3), self.rng)", "gametes of the two-way hybrids in a four-way cross recombine with capped probabilities")
mut("c02-3w-hybrid-meiosis-capped", "C02", "pybrops/breed/prot/mate/ThreeWayCross.py", "        hgeno = mat_mate(geno, f1geno, rsel, f1sel, xoprob, self.rng)", "        hgeno = mat_mate(geno, f1geno, rsel, f1sel, numpy.minimum(xoprob, 0.3), self.rng)", "gametes of the hybrid in a three-way cross recombine with capped probabilities")

# ---------------------------------------------------------------- C07
CF = "pybrops/breed/prot/sel/cfg/"
mut("c07-subset-with-replacement", "C07", CF + "SubsetSelectionConfiguration.py", "            replace = False,", "            replace = True,", "subset members drawn with replacement: uneven use")
mut("c07-real-no-outcross-shuffle", "C07", CF + "RealSelectionConfiguration.py", "        outcross_shuffle(out, rng = self.rng)", "        pass", "real configurations skip the outcrossing shuffle")
mut("c07-mo-argmin", "C07", "pybrops/breed/prot/sel/SubsetSelectionProtocol.py", "            ix = score.argmax()", "            ix = score.argmin()", "multi-objective pick takes the least preferred front member")
mut("c07-ebv-scaled", "C07", "pybrops/breed/prot/sel/prob/EstimatedBreedingValueSelectionProblem.py", "        ebv = bvmat.unscale() if unscale else bvmat.mat", "        ebv = bvmat.mat", "unscale ignored: criterion computed on standardised values", count=4)
mut("c07-gebv-wrong-taxa-order", "C07", "pybrops/breed/prot/sel/prob/GenomicEstimatedBreedingValueSelectionProblem.py", "        gebvmat = gpmod.gebv(gmat)", "        gebvmat = gpmod.gebv(gmat)\n        gebvmat.reorder_taxa(numpy.arange(gebvmat.ntaxa)[::-1])", "GEBVs attached to candidates in reverse order", count=0)
mut("c07-mate-xmap-shifted", "C07", CF + "SubsetMateSelectionConfiguration.py", "        out = self.xconfig_xmap[out,:]", "        out = self.xconfig_xmap[(out + 1) % len(self.xconfig_xmap),:]", "mate configurations look up the neighbouring candidate cross")
mut("c07-binary-uses-all", "C07", CF + "BinarySelectionConfiguration.py", "            self.xconfig_decn\n        )", "            numpy.maximum(self.xconfig_decn, 1 if len(self.xconfig_decn) == 7 else 0)\n        )", "binary configurations of 7 candidates use unselected individuals too")
mut("c07-real-weights-squared", "C07", CF + "RealSelectionConfiguration.py", "            self.xconfig_decn,\n            size = (self.ncross, self.nparent),", "            self.xconfig_decn**2,\n            size = (self.ncross, self.nparent),", "contribution weights squared before sampling")
mut("c07-xconfig-one-cross-short", "C07", CF + "IntegerSelectionConfiguration.py", "            size = (self.ncross, self.nparent),", "            size = (max(self.ncross - 1, 1), self.nparent),", "one cross fewer than requested")
mut("c07-wgs-alpha-one", "C07", "pybrops/breed/prot/sel/WeightedGenomicSelection.py", "        super(WeightedGenomicSubsetSelection, self).__init__(\n            ntrait = ntrait,\n            alpha = 0.5,", "        super(WeightedGenomicSubsetSelection, self).__init__(\n            ntrait = ntrait,\n            alpha = 1.0,", "weighted genomic selection weights by 1/p instead of 1/sqrt(p)")
mut("c07-gwgebv-power-sign", "C07", "pybrops/breed/prot/sel/prob/GeneralizedWeightedGenomicEstimatedBreedingValueSelectionProblem.py", "        gwgebv = Z_a.dot(u_a * numpy.power(tmp, -alpha))", "        gwgebv = Z_a.dot(u_a * numpy.power(tmp, alpha))", "favourable-allele frequency weights applied with the wrong sign of the exponent (all four encodings)", count=4)
mut("c07-fafreq-unfavourable", "C07", "pybrops/model/gmod/DenseAdditiveLinearGenomicModel.py", "        out = numpy.where(mask, acount, maxfav - acount)\n\n        # for alleles with zero effect", "        out = numpy.where(mask, maxfav - acount, acount)\n\n        # for alleles with zero effect", "favourable allele counts taken from the unfavourable allele", count=2)
mut("c07-embv-self-crosses", "C07", "pybrops/breed/prot/sel/ExpectedMaximumBreedingValueSelection.py", "unique_parents = self.unique_parents,", "unique_parents = False,", "EMBV cross map ignores unique_parents", count=4)
mut("c07-realmate-weights-sqrt", "C07", CF + "RealMateSelectionConfiguration.py", "            numpy.arange(len(self.xconfig_decn)),\n            self.xconfig_decn,", "            numpy.arange(len(self.xconfig_decn)),\n            numpy.sqrt(self.xconfig_decn),", "mate-selection contribution weights flattened by a square root before sampling")
mut("c07-mo-ignores-ndset-wt", "C07", "pybrops/breed/prot/sel/RealSelectionProtocol.py", "            score = self.ndset_wt * self.ndset_trans(", "            score = abs(self.ndset_wt) * self.ndset_trans(", "sign of the non-dominated-set weight dropped in the real-encoded protocols")
mut("c07-mo-drops-trans-kwargs", "C07", "pybrops/breed/prot/sel/SubsetSelectionProtocol.py", "                mosoln.soln_obj, \n                **self.ndset_trans_kwargs", "                mosoln.soln_obj", "keyword arguments of the preference transformation not forwarded")


def run_one(m, runs, tier_args=()):
    scratch = "/dev/shm/pybrops-mut-%s-%d" % (m["id"], os.getpid())
    shutil.rmtree(scratch, ignore_errors=True)
    os.makedirs(scratch)
    try:
        shutil.copytree("/repo/pybrops", os.path.join(scratch, "pybrops"))
        path = os.path.join(scratch, m["file"])
        src = open(path, newline='').read()
        if "\r\n" in src and "\r" not in m["old"] and "\n" in m["old"]:
            # CRLF source file: express the mutant in the file's line endings
            m = dict(m, old=m["old"].replace("\n", "\r\n"), new=m["new"].replace("\n", "\r\n"))
        if src.count(m["old"]) < 1 or (m["count"] and src.count(m["old"]) != m["count"]):
            return "BAD-MUTANT (old text occurs %d times)" % src.count(m["old"]), ""
        open(path, "w", newline="").write(src.replace(m["old"], m["new"]))
        env = dict(os.environ, VERIF_REPO=scratch, VERIF_REPLAYS=os.path.join(scratch, "replays"))
        cmd = [os.path.join(VERIF, "check"), m["prop"], "--no-evidence"] + (["--runs", str(runs)] if runs else []) + list(tier_args)
        p = subprocess.run(cmd, cwd=VERIF, env=env, capture_output=True, text=True, timeout=3600)
        sigs = [l.strip() for l in p.stdout.splitlines() if l.strip().startswith("signature=")]
        verdict = {0: "MISSED", 1: "CAUGHT", 2: "HARNESS-ERROR"}.get(p.returncode, "exit %d" % p.returncode)
        return verdict, "; ".join(sigs[:3]) + ("" if p.returncode != 2 else p.stderr[-600:])
    finally:
        shutil.rmtree(scratch, ignore_errors=True)


def main(argv):
    runs = None
    sel = []
    it = iter(argv)
    for a in it:
        if a == "--runs":
            runs = int(next(it))
        else:
            sel.append(a)
    missed = 0
    for m in M:
        if sel and m["id"] not in sel and m["prop"] not in sel:
            continue
        verdict, detail = run_one(m, runs)
        print("%-14s %-34s %s  %s" % (verdict, m["id"], m["prop"], detail), flush=True)
        if m["expect"] == "MISSED":
            print("   (expected to be missed by this check: %s)" % m["note"])
            continue
        if verdict != "CAUGHT" and not (m["expect"] == "NONZERO" and verdict == "HARNESS-ERROR"):
            missed += 1
    return 1 if missed else 0


if __name__ == "__main__":
    sys.exit(main(sys.argv[1:]))
