"""Replay every committed regression file (violations that were repaired by fix:
commits): each must NOT reproduce on the current tree.  Exit 1 if one returns."""
import glob
import os
import sys

VERIF = os.path.dirname(os.path.dirname(os.path.dirname(os.path.abspath(__file__))))


def main():
    from sim import entropy
    entropy.install()
    from sim import core
    bad = 0
    for f in sorted(glob.glob(os.path.join(VERIF, "regress", "*.json"))):
        doc, out, hit = core.replay_file(f)
        print("%s %s" % ("RETURNED" if hit else "ok      ", os.path.basename(f)))
        bad += bool(hit)
    return 1 if bad else 0


if __name__ == "__main__":
    sys.exit(main())
