"""Seeded world builders shared by the checks (all sizes small, all from one PRNG)."""
import numpy

from . import compat  # noqa: F401
from pybrops.popgen.gmat.DensePhasedGenotypeMatrix import DensePhasedGenotypeMatrix
from pybrops.popgen.gmat.DenseGenotypeMatrix import DenseGenotypeMatrix
from pybrops.popgen.bvmat.DenseBreedingValueMatrix import DenseBreedingValueMatrix
from pybrops.model.gmod.DenseAdditiveLinearGenomicModel import DenseAdditiveLinearGenomicModel


def obj(lst):
    a = numpy.empty(len(lst), dtype=object)
    for i, v in enumerate(lst):
        a[i] = v
    return a


def chrom_layout(R, nvrnt, nchr):
    """Sorted chromosome labels (1-based) with every chromosome non-empty."""
    assert nvrnt >= nchr >= 1
    cuts = sorted(R.sample(range(1, nvrnt), nchr - 1)) if nchr > 1 else []
    sizes = [b - a for a, b in zip([0] + cuts, cuts + [nvrnt])]
    return numpy.repeat(numpy.arange(1, nchr + 1), sizes), sizes


def xoprob_for(R, chrgrp, palette=(0.0, 0.0, 0.5, 0.1, 0.3, 0.25, 0.01)):
    xo = numpy.array([R.choice(palette) for _ in range(len(chrgrp))], dtype=float)
    for c in numpy.unique(chrgrp):
        xo[numpy.flatnonzero(chrgrp == c)[0]] = 0.5
    return xo


def pgmat(R, ntaxa, nvrnt, nchr=1, provenance=False, grouped=True, taxa_grp=True, names=None, alleles=(0, 1)):
    """Phased diploid genotype matrix with full variant metadata."""
    if provenance:
        mat = numpy.empty((2, ntaxa, nvrnt), dtype="int8")
        for t in range(ntaxa):
            for ph in range(2):
                mat[ph, t, :] = 2 * t + ph
    else:
        mat = numpy.array([[[R.choice(alleles) for _ in range(nvrnt)] for _ in range(ntaxa)] for _ in range(2)], dtype="int8")
    chrgrp, _ = chrom_layout(R, nvrnt, nchr)
    xo = xoprob_for(R, chrgrp)
    phypos = numpy.zeros(nvrnt, dtype=int)
    genpos = numpy.zeros(nvrnt, dtype=float)
    for c in numpy.unique(chrgrp):
        ix = numpy.flatnonzero(chrgrp == c)
        phypos[ix] = numpy.cumsum([R.randint(1, 50) for _ in ix])
        genpos[ix] = numpy.cumsum([R.random() * 0.3 for _ in ix])
    pg = DensePhasedGenotypeMatrix(
        mat,
        taxa=obj(names if names is not None else ["f%d" % i for i in range(ntaxa)]),
        taxa_grp=(numpy.array([R.randint(0, 2) for _ in range(ntaxa)]) if taxa_grp else None),
        vrnt_chrgrp=chrgrp, vrnt_phypos=phypos,
        vrnt_name=obj(["m%d" % i for i in range(nvrnt)]),
        vrnt_genpos=genpos, vrnt_xoprob=xo,
        ploidy=2,
    )
    if grouped:
        pg.group_vrnt()
    return pg


def algmod(R, nvrnt, ntrait, beta_zero=False, palette=(-2.0, -1.0, -0.25, 0.0, 0.0, 0.5, 1.0, 3.0), nfixed=1):
    u = numpy.array([[R.choice(palette) for _ in range(ntrait)] for _ in range(nvrnt)], dtype=float)
    beta = numpy.zeros((nfixed, ntrait)) if beta_zero else numpy.array([[R.choice([0.0, 10.0, -3.5, 1.0]) for _ in range(ntrait)] for _ in range(nfixed)])
    return DenseAdditiveLinearGenomicModel(
        beta=beta, u_misc=None, u_a=u,
        trait=obj(["tr%d" % i for i in range(ntrait)]),
        model_name="sim", hyperparams=None,
    )


def bvmat(R, ntaxa, ntrait, names=None):
    raw = numpy.array([[R.gauss(0, 1) for _ in range(ntrait)] for _ in range(ntaxa)], dtype=float)
    return DenseBreedingValueMatrix.from_numpy(
        raw, taxa=obj(names if names is not None else ["f%d" % i for i in range(ntaxa)]),
        taxa_grp=numpy.array([R.randint(0, 2) for _ in range(ntaxa)]),
        trait=obj(["tr%d" % i for i in range(ntrait)]))


# ---------------------------------------------------------------- optimisation problems
def _first2(x, latent, **k):
    return numpy.array([latent[0], latent[1:].sum()])


def _sumtr(x, latent, **k):
    return latent.sum(keepdims=True)


def _identtr(x, latent, **k):
    return latent


def ebv_problem(kind, ebv, nobj=1, ndecn=None, con=False, maxint=3, eq=False, obj_wt=None, caps=False, space=None, ocs=None):
    """Small EBV selection problem in one of the four encodings (kind: subset/real/integer/binary)."""
    from pybrops.breed.prot.sel.prob.EstimatedBreedingValueSelectionProblem import (
        EstimatedBreedingValueSubsetSelectionProblem as PS, EstimatedBreedingValueRealSelectionProblem as PR,
        EstimatedBreedingValueIntegerSelectionProblem as PI, EstimatedBreedingValueBinarySelectionProblem as PB)
    n, nt = ebv.shape
    tr = _sumtr if nobj == 1 else None
    kw = {}
    if nobj != 1 and nobj != nt:
        raise ValueError("nobj must be 1 or ntrait")
    if con:
        thr = float(numpy.median(ebv[:, -1]))

        def cvtr(x, latent, **k):          # violation when the last latent component exceeds a threshold
            return numpy.array([max(0.0, float(latent[-1]) + thr)])
        kw = dict(nineqcv=1, ineqcv_wt=numpy.array([1.0]), ineqcv_trans=cvtr)
    if obj_wt is not None:
        kw["obj_wt"] = numpy.repeat(float(obj_wt), nobj)
    if caps and kind == "subset":
        # discrete (count-valued) constraint components: a cap on the members taken from each of two groups and,
        # optionally, a quota of flagged members -- different subsets can tie on total violation
        grp = numpy.array(caps["grp"], dtype=int)
        cap = numpy.array(caps["cap"], dtype=float)

        def captr(x, latent, **k):
            g = grp[numpy.asarray(x, dtype=int)]
            return numpy.maximum(numpy.array([float(numpy.sum(g == 0)), float(numpy.sum(g == 1))]) - cap, 0.0)
        kw.update(nineqcv=2, ineqcv_wt=numpy.array([1.0, 1.0]), ineqcv_trans=captr)
        if caps.get("quota") is not None:
            flag = numpy.array(caps["flag"], dtype=int)
            q = float(caps["quota"])

            def quotatr(x, latent, **k):
                return numpy.array([abs(float(numpy.sum(flag[numpy.asarray(x, dtype=int)])) - q)])
            kw.update(neqcv=1, eqcv_wt=numpy.array([1.0]), eqcv_trans=quotatr)
            eq = False
    if eq:
        tgt = float(numpy.sort(ebv[:, 0])[len(ebv) // 2])

        def eqtr(x, latent, **k):          # equality: the first latent component should hit a target value
            return numpy.array([abs(float(latent[0]) + tgt)])
        kw.update(neqcv=1, eqcv_wt=numpy.array([1.0]), eqcv_trans=eqtr)
    if kind == "subset":
        k = ndecn or max(1, n // 3)
        # candidate set: all individuals in index order, or an arbitrary (unsorted, partial) set of them
        cand = numpy.arange(n) if space is None else numpy.array(space, dtype=int)
        if ocs is not None:
            # non-separable family: optimal contribution (norm of the mean relationship column + mean breeding values)
            from pybrops.breed.prot.sel.prob.OptimalContributionSelectionProblem import OptimalContributionSubsetSelectionProblem as PO
            Cm = numpy.triu(numpy.array(ocs, dtype=float))
            tr2 = _sumtr if nobj == 1 else _first2
            return PO(ebv=ebv, C=Cm, ndecn=k, decn_space=cand, decn_space_lower=numpy.repeat(int(cand.min()), k),
                      decn_space_upper=numpy.repeat(int(cand.max()), k), nobj=nobj, obj_trans=tr2, **kw)
        return PS(ebv=ebv, ndecn=k, decn_space=cand, decn_space_lower=numpy.repeat(int(cand.min()), k),
                  decn_space_upper=numpy.repeat(int(cand.max()), k), nobj=nobj, obj_trans=tr, **kw)
    if kind == "real":
        return PR(ebv=ebv, ndecn=n, decn_space=numpy.stack([numpy.zeros(n), numpy.ones(n)]), decn_space_lower=numpy.zeros(n),
                  decn_space_upper=numpy.ones(n), nobj=nobj, obj_trans=tr, **kw)
    if kind == "integer":
        return PI(ebv=ebv, ndecn=n, decn_space=numpy.stack([numpy.zeros(n, dtype=int), numpy.repeat(maxint, n)]),
                  decn_space_lower=numpy.zeros(n, dtype=int), decn_space_upper=numpy.repeat(maxint, n), nobj=nobj, obj_trans=tr, **kw)
    if kind == "binary":
        return PB(ebv=ebv, ndecn=n, decn_space=numpy.stack([numpy.zeros(n, dtype=int), numpy.ones(n, dtype=int)]),
                  decn_space_lower=numpy.zeros(n, dtype=int), decn_space_upper=numpy.ones(n, dtype=int), nobj=nobj, obj_trans=tr, **kw)
    raise ValueError(kind)
