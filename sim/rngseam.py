"""Randomness seam: generator subclasses that pybrops accepts as ``rng=``.

A ``SimGenerator`` delegates to a real PCG64 stream unless its *script* overrides a
call.  A scripted answer is always a value the real method could have returned
for the same arguments (legal but rare outcomes made common, never impossible
outcomes made possible):

  uniform(low, high[, size]) : "low" (== low everywhere), "high"
                               (== nextafter(high, low) everywhere), "stratified"
                               (per column a seeded permutation of (i+1/2)/N),
                               "at" (explicit values supplied by the script,
                               each checked to lie in [low, high))
  random(size)               : same modes with low=0, high=1
  choice(a, size, replace)   : "first" / "last" / "same" (replace=True only) /
                               "lowest" / "highest" (k smallest/largest, no replace)
  shuffle(x) / permutation   : "identity" / "reverse" / "rotate"

Every call is recorded (method, summary of arguments, mode fired) so a check can
log it, count fired fault kinds and replay exactly.
"""
import numpy
from numpy.random import Generator, PCG64, RandomState, MT19937


def _rule_for(script, method, idx):
    """Return the mode for call number ``idx`` of ``method`` (or None)."""
    if not script:
        return None
    for r in script:
        if r.get("method") != method:
            continue
        calls = r.get("calls", "all")
        if calls == "all" or idx in calls:
            return r
    return None


class _SeamMixin:
    def _seam_init(self, script):
        self.script = list(script or [])
        self.calls = []            # (method, argsummary, mode)
        self.count = {}            # method -> number of calls
        self.fired = {}            # "method:mode" -> count

    def _next(self, method, summary):
        i = self.count.get(method, 0)
        self.count[method] = i + 1
        r = _rule_for(self.script, method, i)
        mode = r["mode"] if r else "pass"
        self.calls.append((method, summary, mode))
        if r:
            k = method + ":" + mode
            self.fired[k] = self.fired.get(k, 0) + 1
        return r

    @property
    def ncalls(self):
        return len(self.calls)

    # ---- scripted answers -------------------------------------------------
    def _uniform_scripted(self, r, low, high, size, real):
        mode = r["mode"]
        if mode == "low":
            return float(low) if size is None else numpy.full(size, float(low))
        if mode == "high":
            v = numpy.nextafter(float(high), float(low))
            return float(v) if size is None else numpy.full(size, float(v))
        if mode == "at":
            vals = numpy.asarray(r["values"], dtype=float)
            if size is None:
                v = float(vals.ravel()[0])
                assert low <= v < high or (low == high == v), "illegal scripted uniform"
                return v
            out = numpy.resize(vals, size).astype(float)
            assert numpy.all((out >= low) & (out < high)), "illegal scripted uniform"
            return out
        if mode == "frac":
            # low + f*(high-low) clipped into [low, high): f given by script
            f = float(r["f"])
            v = low + f * (high - low)
            v = min(max(v, low), numpy.nextafter(float(high), float(low)))
            return float(v) if size is None else numpy.full(size, float(v))
        if mode == "stratified":
            if size is None or numpy.ndim(size) == 0 or len(tuple(size)) != 2:
                return real(low, high, size)
            N, m = size
            pts = low + (numpy.arange(N) + 0.5) / N * (high - low)
            out = numpy.empty(size, dtype=float)
            for j in range(m):
                out[:, j] = Generator.permutation(self._aux, pts)
            return out
        raise ValueError("unknown uniform mode " + mode)

    def _choice_scripted(self, r, a, size, replace, real, p):
        mode = r["mode"]
        arr = numpy.arange(a) if numpy.ndim(a) == 0 else numpy.asarray(a)
        n = len(arr)
        if size is None:
            k, shape = 1, None
        else:
            shape = (size,) if numpy.ndim(size) == 0 else tuple(size)
            k = int(numpy.prod(shape))
        if p is not None:
            return real()
        if replace:
            if mode == "first":
                idx = numpy.zeros(k, dtype=int)
            elif mode == "last":
                idx = numpy.full(k, n - 1, dtype=int)
            elif mode == "same":
                idx = numpy.full(k, int(r.get("index", 0)) % n, dtype=int)
            else:
                return real()
        else:
            if k > n:
                return real()          # let the real method raise
            if mode in ("first", "lowest"):
                idx = numpy.arange(k)
            elif mode in ("last", "highest"):
                idx = numpy.arange(n - k, n)[::-1].copy()
            else:
                return real()
        out = arr[idx]
        return out[0] if shape is None else out.reshape(shape)

    def _perm_of(self, r, n):
        mode = r["mode"]
        if mode == "identity":
            return numpy.arange(n)
        if mode == "reverse":
            return numpy.arange(n)[::-1].copy()
        if mode == "rotate":
            return numpy.roll(numpy.arange(n), 1)
        raise ValueError("unknown permutation mode " + mode)


class SimGenerator(_SeamMixin, Generator):
    """numpy.random.Generator subclass owned by the simulator."""

    def __init__(self, seed, script=None):
        Generator.__init__(self, PCG64(int(seed)))
        self._aux = Generator(PCG64([int(seed), 0x5EA]))   # for scripted answers only
        self._seam_init(script)
        self.seed_value = int(seed)

    def uniform(self, low=0.0, high=1.0, size=None):
        r = self._next("uniform", (repr(low), repr(high), _sz(size)))
        if r is None:
            return Generator.uniform(self, low, high, size)
        return self._uniform_scripted(r, low, high, size,
                                      lambda l, h, s: Generator.uniform(self, l, h, s))

    def random(self, size=None, dtype=numpy.float64, out=None):
        r = self._next("random", (_sz(size),))
        if r is None or out is not None:
            return Generator.random(self, size, dtype, out)
        return self._uniform_scripted(r, 0.0, 1.0, size,
                                      lambda l, h, s: Generator.random(self, s))

    def choice(self, a, size=None, replace=True, p=None, axis=0, shuffle=True):
        r = self._next("choice", (_sz(numpy.shape(a) or a), _sz(size), bool(replace), p is not None))
        real = lambda: Generator.choice(self, a, size, replace, p, axis, shuffle)
        if r is None:
            return real()
        return self._choice_scripted(r, a, size, replace, real, p)

    def shuffle(self, x, axis=0):
        r = self._next("shuffle", (_sz(numpy.shape(x)), axis))
        if r is None:
            return Generator.shuffle(self, x, axis)
        perm = self._perm_of(r, numpy.shape(x)[axis])
        if isinstance(x, numpy.ndarray):
            x[...] = numpy.take(x, perm, axis=axis)
        else:
            tmp = [x[i] for i in perm]
            x[:] = tmp
        return None

    def permutation(self, x, axis=0):
        r = self._next("permutation", (_sz(numpy.shape(x) or x), axis))
        if r is None:
            return Generator.permutation(self, x, axis)
        arr = numpy.arange(x) if numpy.ndim(x) == 0 else numpy.asarray(x)
        return numpy.take(arr, self._perm_of(r, arr.shape[axis]), axis=axis)

    def multivariate_normal(self, mean, cov, size=None, *a, **k):
        self._next("multivariate_normal", (_sz(numpy.shape(mean)), _sz(size)))
        out = Generator.multivariate_normal(self, mean, cov, size, *a, **k)
        rec = getattr(self, "mvn_record", None)
        if rec is not None:
            rec.append((numpy.array(cov, dtype=float), numpy.array(out, dtype=float)))
        return out

    def integers(self, *a, **k):
        self._next("integers", ())
        return Generator.integers(self, *a, **k)

    def normal(self, *a, **k):
        self._next("normal", ())
        return Generator.normal(self, *a, **k)


class SimRandomState(_SeamMixin, RandomState):
    """numpy.random.RandomState subclass owned by the simulator (legacy API)."""

    def __init__(self, seed, script=None):
        RandomState.__init__(self, MT19937(int(seed)))
        self._aux = Generator(PCG64([int(seed), 0x5EA]))
        self._seam_init(script)
        self.seed_value = int(seed)

    def uniform(self, low=0.0, high=1.0, size=None):
        r = self._next("uniform", (repr(low), repr(high), _sz(size)))
        if r is None:
            return RandomState.uniform(self, low, high, size)
        return self._uniform_scripted(r, low, high, size,
                                      lambda l, h, s: RandomState.uniform(self, l, h, s))

    def random(self, size=None):
        r = self._next("random", (_sz(size),))
        if r is None:
            return RandomState.random(self, size)
        return self._uniform_scripted(r, 0.0, 1.0, size,
                                      lambda l, h, s: RandomState.random(self, s))

    def choice(self, a, size=None, replace=True, p=None):
        r = self._next("choice", (_sz(numpy.shape(a) or a), _sz(size), bool(replace), p is not None))
        real = lambda: RandomState.choice(self, a, size, replace, p)
        if r is None:
            return real()
        return self._choice_scripted(r, a, size, replace, real, p)

    def shuffle(self, x):
        r = self._next("shuffle", (_sz(numpy.shape(x)),))
        if r is None:
            return RandomState.shuffle(self, x)
        perm = self._perm_of(r, len(x))
        if isinstance(x, numpy.ndarray):
            x[...] = numpy.take(x, perm, axis=0)
        else:
            x[:] = [x[i] for i in perm]
        return None

    def permutation(self, x):
        r = self._next("permutation", (_sz(numpy.shape(x) or x),))
        if r is None:
            return RandomState.permutation(self, x)
        arr = numpy.arange(x) if numpy.ndim(x) == 0 else numpy.asarray(x)
        return numpy.take(arr, self._perm_of(r, len(arr)), axis=0)

    def multivariate_normal(self, mean, cov, size=None, *a, **k):
        self._next("multivariate_normal", (_sz(numpy.shape(mean)), _sz(size)))
        out = RandomState.multivariate_normal(self, mean, cov, size, *a, **k)
        rec = getattr(self, "mvn_record", None)
        if rec is not None:
            rec.append((numpy.array(cov, dtype=float), numpy.array(out, dtype=float)))
        return out


def _sz(s):
    if s is None:
        return None
    if numpy.ndim(s) == 0:
        return int(s)
    return tuple(int(v) for v in s)


def make(kind, seed, script=None):
    return SimRandomState(seed, script) if kind == "RandomState" else SimGenerator(seed, script)


def global_state_digest():
    """Digest of both global streams (Python ``random`` and NumPy legacy)."""
    import hashlib
    import random
    h = hashlib.sha256()
    h.update(repr(random.getstate()).encode())
    st = numpy.random.get_state()
    h.update(repr((st[0], st[1].tobytes().hex(), st[2], st[3], st[4])).encode())
    return h.hexdigest()[:24]
