"""Entropy and wall-clock seam.

Every OS-entropy source that NumPy, the ``random`` module or pymoo can reach from
Python, and every wall clock pymoo reads, is routed through one *world* object
while a simulated run is active.  A world is a pure function of an integer; reads
are counted.  Outside a run (``CURRENT is None``) the real functions are used, so
the harness itself (multiprocessing, tempfile, ...) is unaffected.

Seams patched (all harness-side, nothing in /repo):
  os.urandom, random._urandom, numpy.random.bit_generator.randbits  (= secrets.randbits)
  time.time, time.time_ns, time.monotonic, time.perf_counter
"""
import hashlib
import os
import random
import time

import numpy.random.bit_generator as _bg

_REAL = {
    "urandom": os.urandom,
    "r_urandom": random._urandom,
    "randbits": _bg.randbits,
    "time": time.time,
    "time_ns": time.time_ns,
    "monotonic": time.monotonic,
    "perf_counter": time.perf_counter,
}

CURRENT = None          # the active World, or None


class World:
    """Deterministic entropy + clock source number ``w``."""

    def __init__(self, w):
        self.w = int(w)
        self.entropy_reads = 0
        self.clock_reads = 0
        # worlds differ in every respect: disjoint byte streams, clocks years apart with
        # unrelated low-order digits (so parity / modulo tricks on the time differ too)
        h = int.from_bytes(hashlib.blake2b(b"clock:%d" % self.w, digest_size=8).digest(), "big")
        self.t = 1.0e9 + (h % 700000000) + ((h >> 32) % 1000) / 1000.0

    def _bytes(self, n):
        self.entropy_reads += 1
        out = b""
        k = 0
        while len(out) < n:
            out += hashlib.blake2b(
                b"%d:%d:%d" % (self.w, self.entropy_reads, k), digest_size=64
            ).digest()
            k += 1
        return out[:n]

    def urandom(self, n):
        return self._bytes(n)

    def randbits(self, k):
        nbytes = (k + 7) // 8
        return int.from_bytes(self._bytes(nbytes), "big") & ((1 << k) - 1)

    def now(self):
        self.clock_reads += 1
        self.t += 0.001
        return self.t


def _urandom(n):
    w = CURRENT
    return _REAL["urandom"](n) if w is None else w.urandom(n)


def _randbits(k):
    w = CURRENT
    return _REAL["randbits"](k) if w is None else w.randbits(k)


def _mk_clock(name, scale=None):
    real = _REAL[name]

    def f():
        w = CURRENT
        if w is None:
            return real()
        v = w.now()
        return int(v * 1e9) if scale == "ns" else v
    f.__name__ = name
    return f


_installed = False


def install():
    """Install the seam (idempotent).  Call before importing pymoo users."""
    global _installed
    if _installed:
        return
    os.urandom = _urandom
    random._urandom = _urandom
    _bg.randbits = _randbits
    time.time = _mk_clock("time")
    time.time_ns = _mk_clock("time_ns", "ns")
    time.monotonic = _mk_clock("monotonic")
    time.perf_counter = _mk_clock("perf_counter")
    _installed = True


class active:
    """Context manager: make world ``w`` the source of entropy and time."""

    def __init__(self, w):
        self.world = w if isinstance(w, World) else World(w)

    def __enter__(self):
        global CURRENT
        self.prev = CURRENT
        CURRENT = self.world
        return self.world

    def __exit__(self, *a):
        global CURRENT
        CURRENT = self.prev
        return False


def real_time():
    """Wall clock for the harness's own budgets (never inside a run's logic)."""
    return _REAL["monotonic"]()
