"""NumPy-2 alias shim.  Import this before anything from pybrops.

pybrops (pinned) refers to ``numpy.float_`` and ``numpy.in1d`` which NumPy 2.x
removed; without the two aliases ``import pybrops`` fails in this sandbox.  The
aliases live in the harness process only; /repo is untouched.
"""
import warnings
import numpy

if not hasattr(numpy, "float_"):
    numpy.float_ = numpy.float64
if not hasattr(numpy, "in1d"):
    def in1d(ar1, ar2, assume_unique=False, invert=False, **k):
        return numpy.isin(numpy.asarray(ar1).ravel(), ar2,
                          assume_unique=assume_unique, invert=invert, **k)
    numpy.in1d = in1d
warnings.simplefilter("ignore")
