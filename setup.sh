#!/bin/bash
# Offline setup: nothing is compiled.  Verifies the interpreter and the
# third-party packages the simulator needs (all already present in /venv; the
# wheelhouse is the offline fallback), then runs a short determinism self-test.
cd "$(dirname "$0")" || exit 2
PY=/venv/bin/python
need=""
for m in numpy scipy pandas h5py pymoo cyvcf2; do
  $PY -c "import $m" 2>/dev/null || need="$need $m"
done
if [ -n "$need" ]; then
  echo "installing from wheelhouse:$need"
  PIP_NO_INDEX=1 /venv/bin/pip install --no-index --find-links /opt/veriftools/wheels $need || { echo "setup: cannot provide$need" >&2; exit 2; }
fi
mkdir -p evidence replays
PYTHONPATH="$PWD:${VERIF_REPO:-/repo}" PYTHONHASHSEED=0 $PY -c "import sim.compat, pybrops; print('pybrops imports under the shim')" || exit 2
PYTHONPATH="$PWD:${VERIF_REPO:-/repo}" $PY -m sim.selftest.determinism --seeds 6 || exit 2
echo "setup ok"
