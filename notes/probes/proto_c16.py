import shim, numpy, warnings, io, os, copy, tempfile, h5py, pandas, traceback, inspect
warnings.simplefilter("ignore")
from pybrops.popgen.gmat.DensePhasedGenotypeMatrix import DensePhasedGenotypeMatrix
from pybrops.popgen.gmat.DenseGenotypeMatrix import DenseGenotypeMatrix
from pybrops.popgen.bvmat.DenseBreedingValueMatrix import DenseBreedingValueMatrix
from pybrops.popgen.cmat.DenseMolecularCoancestryMatrix import DenseMolecularCoancestryMatrix
from pybrops.popgen.cmat.DenseVanRadenCoancestryMatrix import DenseVanRadenCoancestryMatrix
from pybrops.model.vmat.DenseTwoWayDHAdditiveGeneticVarianceMatrix import DenseTwoWayDHAdditiveGeneticVarianceMatrix
from pybrops.model.vmat.DenseThreeWayDHAdditiveGeneticVarianceMatrix import DenseThreeWayDHAdditiveGeneticVarianceMatrix
from pybrops.model.gmod.DenseAdditiveLinearGenomicModel import DenseAdditiveLinearGenomicModel
from pybrops.model.gmod.DenseAdditiveDominanceLinearGenomicModel import DenseAdditiveDominanceLinearGenomicModel
from pybrops.popgen.gmap.StandardGeneticMap import StandardGeneticMap
from pybrops.popgen.gmap.ExtendedGeneticMap import ExtendedGeneticMap
from pybrops.popgen.gmap.HaldaneMapFunction import HaldaneMapFunction
from pybrops.breed.prot.pt.G_E_Phenotyping import G_E_Phenotyping
from pybrops.core.mat.DenseTaxaMatrix import DenseTaxaMatrix
from pybrops.core.mat.DenseTaxaTraitMatrix import DenseTaxaTraitMatrix
O=lambda l: numpy.array(l,dtype=object)
def canon(v, depth=0):
    if v is None or isinstance(v,(bool,int,float,str,numpy.integer,numpy.floating,numpy.bool_)): return (type(v).__name__ if not isinstance(v,(numpy.generic,)) else v.dtype.kind, None if v is None else (repr(float(v)) if isinstance(v,(float,numpy.floating)) else v))
    if isinstance(v,numpy.ndarray):
        if v.dtype.kind in "OUS": return ("strarr", v.shape, tuple(None if x is None else str(x) for x in v.ravel()))
        return ("arr", str(v.dtype), v.shape, v.tobytes())
    if isinstance(v,(list,tuple)): return ("seq", tuple(canon(x,depth+1) for x in v))
    if isinstance(v,dict): return ("dict", tuple(sorted((str(k),canon(x,depth+1)) for k,x in v.items())))
    if callable(v) and not hasattr(v,"mat"): return ("callable", getattr(v,"__qualname__",type(v).__name__))
    if depth<2 and type(v).__module__.startswith("pybrops"): return ("obj", snapshot(v, depth+1))
    return ("other", type(v).__name__)
SKIP={"spline"}
def snapshot(o, depth=0):
    out={}
    for name in dir(type(o)):
        if name.startswith("_") or name in SKIP: continue
        if isinstance(getattr(type(o),name,None), property):
            try: out[name]=canon(getattr(o,name), depth)
            except Exception as e: out[name]=("EXC",type(e).__name__)
    return (type(o).__name__, out)
def diff(a,b):
    if a[0]!=b[0]: return [("class",a[0],b[0])]
    d=[]
    for k in sorted(set(a[1])|set(b[1])):
        if a[1].get(k)!=b[1].get(k):
            x,y=a[1].get(k),b[1].get(k)
            d.append((k, str(x)[:70], str(y)[:70]))
    return d
r=numpy.random.default_rng(3); nt,nv,ntr=4,6,2
taxa=O(["b","a","dé","c"]); tgrp=numpy.array([2,1,2,1])
pg = DensePhasedGenotypeMatrix(r.integers(0,2,(2,nt,nv)).astype('int8'), taxa=taxa, taxa_grp=tgrp, vrnt_chrgrp=numpy.array([1,1,1,2,2,2]), vrnt_phypos=numpy.array([1,5,9,2,3,8]), vrnt_name=O(list("uvwxyz")), vrnt_genpos=numpy.array([0.,.1,.3,0.,.2,.25]), vrnt_xoprob=numpy.array([.5,.1,.2,.5,.2,.05]), vrnt_hapgrp=numpy.arange(6), vrnt_hapalt=O(list("ACGTAC")), vrnt_hapref=O(list("TGCATG")), vrnt_mask=numpy.array([1,1,0,1,1,1],bool))
pg.group_taxa(); pg.group_vrnt()
gt = DenseGenotypeMatrix(pg.mat.sum(0,dtype='int8'), taxa=pg.taxa, taxa_grp=pg.taxa_grp, vrnt_chrgrp=pg.vrnt_chrgrp, vrnt_phypos=pg.vrnt_phypos, vrnt_name=pg.vrnt_name, vrnt_genpos=pg.vrnt_genpos, ploidy=2); gt.group_vrnt()
alg = DenseAdditiveLinearGenomicModel(beta=numpy.array([[1.0,2.0]]), u_misc=None, u_a=r.normal(size=(nv,ntr)), trait=O(["y1","y2"]), model_name="mod", hyperparams={"a":1.5})
adg = DenseAdditiveDominanceLinearGenomicModel(beta=numpy.array([[1.0,2.0]]), u_misc=None, u_a=r.normal(size=(nv,ntr)), u_d=r.normal(size=(nv,ntr)), trait=O(["y1","y2"]), model_name="mod2", hyperparams=None)
bv = alg.gebv(pg)
bvp = DenseBreedingValueMatrix.from_numpy(r.normal(size=(nt,ntr))*3+100, taxa=taxa, taxa_grp=tgrp, trait=O(["y1","y2"])); bvp.group_taxa()
cm = DenseMolecularCoancestryMatrix.from_gmat(pg); vr = DenseVanRadenCoancestryMatrix.from_gmat(pg)

vm2 = DenseTwoWayDHAdditiveGeneticVarianceMatrix.from_algmod(alg, pg, 1, 10, 0, HaldaneMapFunction())
vm3 = DenseThreeWayDHAdditiveGeneticVarianceMatrix.from_algmod(alg, pg, 1, 10, 0, HaldaneMapFunction())
gm = StandardGeneticMap(vrnt_chrgrp=numpy.array([2,1,1,2,1,2]), vrnt_phypos=numpy.array([30,1,20,5,40,60]), vrnt_genpos=numpy.array([.3,0.,.2,.05,.5,.6]))
pt = G_E_Phenotyping(alg, nenv=2, nrep=numpy.array([1,2]), var_env=0.5, var_rep=0.1, var_err=1.0)
tm = DenseTaxaMatrix(r.normal(size=(nt,3)), taxa=taxa, taxa_grp=tgrp); tm.group_taxa()
ttm = DenseTaxaTraitMatrix(r.normal(size=(nt,ntr)), taxa=taxa, taxa_grp=tgrp, trait=O(["y1","y2"]))
d = tempfile.mkdtemp(dir="/dev/shm")
def rt_h5(o, **kw):
    bio = io.BytesIO()
    with h5py.File(bio,"w") as f: o.to_hdf5(f, "grp/é")
    with h5py.File(bio,"r") as f: return type(o).from_hdf5(f, "grp/é", **kw)
def rt_h5path(o, **kw):
    p=os.path.join(d,"x.h5"); 
    if os.path.exists(p): os.remove(p)
    o.to_hdf5(p); return type(o).from_hdf5(p, **kw)
def report(name, o, f):
    try:
        b = f(o); dd = diff(snapshot(o), snapshot(b))
        print(f"{'SAME' if not dd else 'DIFF'} {name:38s}", "; ".join(f"{k}: {x} -> {y}" for k,x,y in dd[:4])[:400])
    except Exception as e:
        print(f"EXC  {name:38s} {type(e).__name__}: {str(e)[:200]}")
for nm,o in [("pgmat",pg),("gmat",gt),("bv(gebv)",bv),("bv(from_numpy,grouped)",bvp),("cmat molecular",cm),("cmat vanraden",vr),("vmat 2wdh",vm2),("vmat 3wdh",vm3),("algmod",alg),("adgmod",adg),("DenseTaxaMatrix",tm),("DenseTaxaTraitMatrix",ttm)]:
    report(nm+" hdf5(handle,group)", o, rt_h5); report(nm+" hdf5(path)", o, rt_h5path)
    report(nm+" copy", o, copy.copy); report(nm+" deepcopy", o, copy.deepcopy)
report("G_E hdf5", pt, lambda o: rt_h5(o, gpmod=alg))
report("G_E deepcopy", pt, copy.deepcopy)
report("gmap copy", gm, copy.copy); report("gmap deepcopy", gm, copy.deepcopy)
# pandas / csv
report("bv pandas (matching)", bvp, lambda o: type(o).from_pandas(o.to_pandas(unscale=False), location=o.location, scale=o.scale))
def csvrt(o, to_kw={}, from_kw={}):
    p=os.path.join(d,"x.csv"); o.to_csv(p, **to_kw); return type(o).from_csv(p, **from_kw)
report("bv csv (matching)", bvp, lambda o: csvrt(o, dict(unscale=False), dict(location=o.location, scale=o.scale)))
report("cmat pandas", cm, lambda o: type(o).from_pandas(o.to_pandas()))
report("cmat csv", cm, lambda o: csvrt(o))
report("vmat2 pandas", vm2, lambda o: type(o).from_pandas(o.to_pandas()))
report("vmat2 csv", vm2, lambda o: csvrt(o))
report("vmat3 pandas", vm3, lambda o: type(o).from_pandas(o.to_pandas()))
report("gmap pandas (M)", gm, lambda o: type(o).from_pandas(o.to_pandas(vrnt_genpos_units="M"), vrnt_genpos_units="M"))
report("gmap pandas (cM)", gm, lambda o: type(o).from_pandas(o.to_pandas(vrnt_genpos_units="cM"), vrnt_genpos_units="cM"))
report("gmap csv (M)", gm, lambda o: csvrt(o, dict(vrnt_genpos_units="M"), dict(vrnt_genpos_units="M")))
report("algmod pandas_dict", alg, lambda o: type(o).from_pandas_dict(o.to_pandas_dict(), model_name=o.model_name, hyperparams=o.hyperparams))
report("adgmod pandas_dict", adg, lambda o: type(o).from_pandas_dict(o.to_pandas_dict(), model_name=o.model_name, hyperparams=o.hyperparams))
# aliasing after deepcopy
def alias(o):
    c = copy.deepcopy(o); sh=[]
    for name in dir(type(o)):
        if name.startswith("_"): continue
        if isinstance(getattr(type(o),name,None), property):
            try: a,b = getattr(o,name), getattr(c,name)
            except Exception: continue
            if isinstance(a,numpy.ndarray) and isinstance(b,numpy.ndarray) and a.size and numpy.shares_memory(a,b): sh.append(name)
    return sh
for nm,o in [("pgmat",pg),("gmat",gt),("bv",bvp),("cmat",cm),("vmat2",vm2),("algmod",alg),("gmap",gm),("G_E",pt),("taxamat",tm)]:
    print("deepcopy shared arrays", nm, alias(o))
import shutil; shutil.rmtree(d)
