import shim, importlib, pkgutil, inspect, pybrops, warnings
warnings.simplefilter("ignore")
want_pkgs = ("pybrops.core.mat","pybrops.popgen","pybrops.model.gmod","pybrops.model.vmat","pybrops.model.pcvmat","pybrops.model.embvmat","pybrops.model.wgebvmat","pybrops.breed.prot.mate","pybrops.breed.prot.pt","pybrops.breed.prot.bv","pybrops.breed.prot.gt","pybrops.breed.prot.sel.cfg","pybrops.breed.prot.sel.soln","pybrops.opt","pybrops.breed.arch","pybrops.breed.op")
seen=set()
def fmt(sig):
    ps=[]
    for p in sig.parameters.values():
        if p.name in ("self","cls"): continue
        if p.kind==p.VAR_KEYWORD: ps.append("**"+p.name); continue
        ps.append(p.name if p.default is inspect._empty else f"{p.name}={p.default!r}")
    return ", ".join(ps)
for m in pkgutil.walk_packages(pybrops.__path__, "pybrops.", onerror=lambda n: None):
    if not m.name.startswith(want_pkgs) or "pmebvmat" in m.name: continue
    try: mod = importlib.import_module(m.name)
    except Exception: continue
    for cname,obj in vars(mod).items():
        if not inspect.isclass(obj) or obj.__module__!=m.name or obj in seen: continue
        seen.add(obj)
        ab = inspect.isabstract(obj)
        if ab: continue
        try: sig = fmt(inspect.signature(obj.__init__))
        except Exception: sig="?"
        print(f"{m.name.replace('pybrops.','').rsplit('.',1)[0]}.{cname}({sig})")
        for fn in ("from_gmat","from_algmod","from_gmod","from_numpy","from_pgmat_gpmod","from_bvmat","from_bvmat_gmat","from_pgmat","genotype","estimate","phenotype","mate","minimize","fit_numpy","fit","interp_xoprob","mapfn"):
            if fn in vars(obj) or (hasattr(obj,fn) and fn in ("from_gmat","from_algmod","from_gmod","fit_numpy")):
                try: print(f"      .{fn}({fmt(inspect.signature(getattr(obj,fn)))})")
                except Exception: pass
