import shim, numpy, warnings
warnings.simplefilter("ignore")
from pybrops.model.vmat.DenseTwoWayDHAdditiveGeneticVarianceMatrix import DenseTwoWayDHAdditiveGeneticVarianceMatrix as V
O=lambda l: numpy.array(l,dtype=object)
nt=4; m = numpy.arange(nt*nt*2,dtype=float).reshape(nt,nt,2); m = (m + m.transpose(1,0,2))
v = V(m, taxa=O(["a","c","b","d"]), taxa_grp=numpy.array([1,1,2,2]), trait=O(["y2","y1"]))
df = v.to_pandas(); print(df.head(4)); w = V.from_pandas(df)
print("taxa", v.taxa, "->", w.taxa, "| taxa_grp", v.taxa_grp, "->", w.taxa_grp, "| trait", v.trait, "->", w.trait)
ok=True
for i,a in enumerate(v.taxa):
    for j,b in enumerate(v.taxa):
        for k,t in enumerate(v.trait):
            ii=list(w.taxa).index(a); jj=list(w.taxa).index(b); kk=list(w.trait).index(t)
            if w.mat[ii,jj,kk]!=v.mat[i,j,k]: ok=False
print("content label-wise equal:", ok, "| grp attached:", all(w.taxa_grp[list(w.taxa).index(a)]==g for a,g in zip(v.taxa,v.taxa_grp)))
