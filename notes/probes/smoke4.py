import shim, numpy, copy
from pybrops.breed.arch.RecurrentSelectionBreedingProgram import RecurrentSelectionBreedingProgram
from pybrops.breed.op.init.InitializationOperator import InitializationOperator
from pybrops.breed.op.psel.ParentSelectionOperator import ParentSelectionOperator
from pybrops.breed.op.mate.MatingOperator import MatingOperator
from pybrops.breed.op.eval.EvaluationOperator import EvaluationOperator
from pybrops.breed.op.ssel.SurvivorSelectionOperator import SurvivorSelectionOperator
from pybrops.breed.op.log.Logbook import Logbook
trace = []
class Init(InitializationOperator):
    def initialize(self, miscout=None, **kw):
        trace.append(("init",)); return {"a":[0]}, {"a":[0]}, {"a":[0]}, {"a":[0]}, {"a":[0]}
class P(ParentSelectionOperator):
    def pselect(self, genome, geno, pheno, bval, gmod, t_cur, t_max, miscout=None, **kw):
        trace.append(("psel", t_cur, copy.deepcopy(genome))); genome["a"].append(("p",t_cur)); return "mcfg", genome, geno, pheno, bval, gmod
class M(MatingOperator):
    def mate(self, mcfg, genome, geno, pheno, bval, gmod, t_cur, t_max, miscout=None, **kw):
        trace.append(("mate", t_cur, mcfg)); genome["a"].append(("m",t_cur)); return genome, geno, pheno, bval, gmod
class E(EvaluationOperator):
    def evaluate(self, genome, geno, pheno, bval, gmod, t_cur, t_max, miscout=None, **kw):
        trace.append(("eval", t_cur, copy.deepcopy(genome))); genome["a"].append(("e",t_cur)); return genome, geno, pheno, bval, gmod
class S(SurvivorSelectionOperator):
    def sselect(self, genome, geno, pheno, bval, gmod, t_cur, t_max, miscout=None, **kw):
        trace.append(("ssel", t_cur)); genome["a"].append(("s",t_cur)); return genome, geno, pheno, bval, gmod
class L(Logbook):
    def __init__(self): self._rep = 0; self._data = {}
    data = property(lambda s: s._data, lambda s,v: setattr(s,"_data",v))
    rep = property(lambda s: s._rep, lambda s,v: setattr(s,"_rep",v))
    def log_initialize(self, genome, geno, pheno, bval, gmod, t_cur, t_max, **kw): trace.append(("log_init", self.rep, t_cur))
    def log_pselect(self, mcfg, genome, geno, pheno, bval, gmod, t_cur, t_max, **kw): trace.append(("log_psel", self.rep, t_cur))
    def log_mate(self, mcfg, genome, geno, pheno, bval, gmod, t_cur, t_max, **kw): trace.append(("log_mate", self.rep, t_cur))
    def log_evaluate(self, genome, geno, pheno, bval, gmod, t_cur, t_max, **kw): trace.append(("log_eval", self.rep, t_cur))
    def log_sselect(self, genome, geno, pheno, bval, gmod, t_cur, t_max, **kw): trace.append(("log_ssel", self.rep, t_cur))
    def reset(self): pass
    def write(self, filename): pass
bp = RecurrentSelectionBreedingProgram(Init(), P(), M(), E(), S(), t_max=3)
bp.evolve(nrep=2, ngen=2, lbook=L())
for x in trace: print(x)
print(bp.start_genome)
