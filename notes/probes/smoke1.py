import shim, numpy, copy, traceback, os, tempfile
from pybrops.popgen.gmat.DensePhasedGenotypeMatrix import DensePhasedGenotypeMatrix
from pybrops.popgen.gmat.DenseGenotypeMatrix import DenseGenotypeMatrix
from pybrops.breed.prot.mate.TwoWayDHCross import TwoWayDHCross
from pybrops.breed.prot.mate.FourWayCross import FourWayCross
rng = numpy.random.default_rng(1)
nt, nv = 6, 12
mat = rng.integers(0,2,(2,nt,nv)).astype('int8')
pg = DensePhasedGenotypeMatrix(mat, taxa=numpy.array(["t%d"%i for i in range(nt)],dtype=object), taxa_grp=numpy.array([1,1,2,2,3,3]),
    vrnt_chrgrp=numpy.repeat([1,2],6), vrnt_phypos=numpy.tile(numpy.arange(6)*10+1,2), vrnt_name=numpy.array(["m%d"%i for i in range(nv)],dtype=object),
    vrnt_genpos=numpy.tile(numpy.arange(6)*0.1,2), vrnt_xoprob=numpy.tile([0.5,.1,.1,.0,.2,.5],2))
pg.group_vrnt()
print("grouped", pg.is_grouped_vrnt(), pg.vrnt_chrgrp_stix, pg.vrnt_chrgrp_spix)
def t(name, f):
    try:
        r = f(); print("OK ", name, "" if r is None else str(r)[:150].replace("\n"," "))
        return r
    except Exception as e:
        print("ERR", name, type(e).__name__, str(e)[:200])
mp = TwoWayDHCross(rng=numpy.random.default_rng(2))
prog = t("2wdh mate", lambda: mp.mate(pg, numpy.array([[0,1],[2,3]]), 2, 3, nself=1))
print(prog.mat.shape, prog.taxa, prog.taxa_grp)
t("4w mate", lambda: FourWayCross(rng=numpy.random.default_rng(2)).mate(pg, numpy.array([[0,1,2,3]]), numpy.array([2]), numpy.array([3])).mat.shape)
d = tempfile.mkdtemp()
fn = os.path.join(d,"a.h5")
t("to_hdf5", lambda: pg.to_hdf5(fn))
t("to_hdf5 group", lambda: pg.to_hdf5(fn, "grp/x"))
q = t("from_hdf5", lambda: DensePhasedGenotypeMatrix.from_hdf5(fn))
t("from_hdf5 grp", lambda: DensePhasedGenotypeMatrix.from_hdf5(fn, "grp/x").taxa)
t("afreq", lambda: pg.afreq())
t("gtcount", lambda: pg.gtcount().shape)
t("deepcopy", lambda: copy.deepcopy(pg).taxa)
g = t("unphased", lambda: DenseGenotypeMatrix(pg.mat.sum(0,dtype='int8'), taxa=pg.taxa, taxa_grp=pg.taxa_grp, vrnt_chrgrp=pg.vrnt_chrgrp, vrnt_phypos=pg.vrnt_phypos, vrnt_name=pg.vrnt_name, ploidy=2))
t("unphased afreq", lambda: g.afreq())
import h5py, io
bio = io.BytesIO()
def w():
    with h5py.File(bio, "w") as f:
        pg.to_hdf5(f)
    return len(bio.getvalue())
t("to_hdf5 fileobj", w)
