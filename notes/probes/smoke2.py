import shim, numpy, copy, traceback, os, tempfile, io
import pandas
from pybrops.popgen.gmat.DensePhasedGenotypeMatrix import DensePhasedGenotypeMatrix
from pybrops.popgen.gmat.DenseGenotypeMatrix import DenseGenotypeMatrix
def t(name, f, tb=False):
    try:
        r = f(); print("OK ", name, "" if r is None else str(r)[:160].replace("\n"," "))
        return r
    except Exception as e:
        print("ERR", name, type(e).__name__, str(e)[:300])
        if tb: traceback.print_exc()
rng = numpy.random.default_rng(1)
nt, nv = 8, 12
mat = rng.integers(0,2,(2,nt,nv)).astype('int8')
pg = DensePhasedGenotypeMatrix(mat, taxa=numpy.array(["t%d"%i for i in range(nt)],dtype=object), taxa_grp=numpy.repeat([1,2,3,4],2),
    vrnt_chrgrp=numpy.repeat([1,2],6), vrnt_phypos=numpy.tile(numpy.arange(6)*10+1,2), vrnt_name=numpy.array(["m%d"%i for i in range(nv)],dtype=object),
    vrnt_genpos=numpy.tile(numpy.arange(6)*0.1,2), vrnt_xoprob=numpy.tile([0.5,.1,.1,.0,.2,.5],2))
pg.group_vrnt()
d = tempfile.mkdtemp()
# gmap
from pybrops.popgen.gmap.StandardGeneticMap import StandardGeneticMap
from pybrops.popgen.gmap.ExtendedGeneticMap import ExtendedGeneticMap
from pybrops.popgen.gmap.HaldaneMapFunction import HaldaneMapFunction
from pybrops.popgen.gmap.KosambiMapFunction import KosambiMapFunction
gm = t("gmap ctor", lambda: StandardGeneticMap(vrnt_chrgrp=numpy.repeat([1,2],4), vrnt_phypos=numpy.tile([1,20,40,60],2), vrnt_genpos=numpy.tile([0.,.2,.5,.6],2)))
t("gmap to_csv", lambda: gm.to_csv(os.path.join(d,"g.csv")), True)
t("gmap from_csv", lambda: StandardGeneticMap.from_csv(os.path.join(d,"g.csv")).vrnt_genpos, True)
t("gmap to_pandas", lambda: gm.to_pandas())
t("interp_xoprob", lambda: (pg.interp_xoprob(gm, HaldaneMapFunction()), pg.vrnt_xoprob)[1], True)
t("gdist2g", lambda: gm.gdist2g(numpy.array([1,1,2]), numpy.array([0.1,0.3,0.2])))
# gmod
from pybrops.model.gmod.DenseAdditiveLinearGenomicModel import DenseAdditiveLinearGenomicModel
algmod = t("algmod", lambda: DenseAdditiveLinearGenomicModel(beta=numpy.array([[1.0,2.0]]), u_misc=None, u_a=rng.normal(size=(nv,2)), trait=numpy.array(["y1","y2"],dtype=object), model_name="m", hyperparams=None))
bv = t("gebv", lambda: algmod.gebv(pg), True)
t("gebv unscale", lambda: bv.unscale())
t("usl", lambda: algmod.usl(pg)); t("lsl", lambda: algmod.lsl(pg))
t("var_A", lambda: algmod.var_A(pg)); t("bulmer", lambda: algmod.bulmer(pg))
t("facount", lambda: algmod.facount(pg).shape)
t("algmod to_hdf5", lambda: algmod.to_hdf5(os.path.join(d,"m.h5")), True)
t("algmod from_hdf5", lambda: DenseAdditiveLinearGenomicModel.from_hdf5(os.path.join(d,"m.h5")).u_a.shape, True)
t("algmod to_csv_dict", lambda: algmod.to_csv_dict({"beta":os.path.join(d,"b.csv"),"u":os.path.join(d,"u.csv"),"u_misc":None,"u_a":os.path.join(d,"ua.csv")}), True)
# bvmat io
t("bv to_pandas", lambda: bv.to_pandas(), True)
t("bv to_csv", lambda: bv.to_csv(os.path.join(d,"bv.csv")), True)
from pybrops.popgen.bvmat.DenseBreedingValueMatrix import DenseBreedingValueMatrix
t("bv from_csv", lambda: DenseBreedingValueMatrix.from_csv(os.path.join(d,"bv.csv")).unscale(), True)
t("bv to_hdf5", lambda: bv.to_hdf5(os.path.join(d,"bv.h5")), True)
t("bv select_taxa", lambda: bv.select_taxa([0,3]).unscale())
# cmat
from pybrops.popgen.cmat.DenseMolecularCoancestryMatrix import DenseMolecularCoancestryMatrix
from pybrops.popgen.cmat.DenseVanRadenCoancestryMatrix import DenseVanRadenCoancestryMatrix
from pybrops.popgen.cmat.DenseYangCoancestryMatrix import DenseYangCoancestryMatrix
from pybrops.popgen.cmat.DenseGeneralizedWeightedCoancestryMatrix import DenseGeneralizedWeightedCoancestryMatrix
cm = t("molecular", lambda: DenseMolecularCoancestryMatrix.from_gmat(pg), True)
t("vanraden", lambda: DenseVanRadenCoancestryMatrix.from_gmat(pg).mat.shape, True)
t("yang", lambda: DenseYangCoancestryMatrix.from_gmat(pg).mat.shape, True)
t("cm to_pandas", lambda: cm.to_pandas().shape, True)
t("cm to_csv", lambda: cm.to_csv(os.path.join(d,"cm.csv")), True)
t("cm from_csv", lambda: DenseMolecularCoancestryMatrix.from_csv(os.path.join(d,"cm.csv")).mat.shape, True)
t("cm to_hdf5", lambda: cm.to_hdf5(os.path.join(d,"cm.h5")), True)
t("cm from_hdf5", lambda: DenseMolecularCoancestryMatrix.from_hdf5(os.path.join(d,"cm.h5")).taxa, True)
# vmat
from pybrops.model.vmat.DenseTwoWayDHAdditiveGeneticVarianceMatrix import DenseTwoWayDHAdditiveGeneticVarianceMatrix
vm = t("2wdh vmat", lambda: DenseTwoWayDHAdditiveGeneticVarianceMatrix.from_algmod(algmod, pg, 2, 0, HaldaneMapFunction()), True)
t("vm to_pandas", lambda: vm.to_pandas().shape, True)
t("vm to_csv", lambda: vm.to_csv(os.path.join(d,"vm.csv")), True)
t("vm from_csv", lambda: DenseTwoWayDHAdditiveGeneticVarianceMatrix.from_csv(os.path.join(d,"vm.csv")).mat.shape, True)
t("vm to_hdf5", lambda: vm.to_hdf5(os.path.join(d,"vm.h5")), True)
t("vm from_hdf5", lambda: DenseTwoWayDHAdditiveGeneticVarianceMatrix.from_hdf5(os.path.join(d,"vm.h5")).mat.shape, True)
# phenotyping
from pybrops.breed.prot.pt.G_E_Phenotyping import G_E_Phenotyping
pt = t("GE ctor", lambda: G_E_Phenotyping(algmod, nenv=2, nrep=numpy.array([1,2]), var_env=0.5, var_rep=0.1, var_err=1.0, rng=numpy.random.default_rng(3)), True)
df = t("phenotype", lambda: pt.phenotype(pg), True)
print(df.head(3) if df is not None else None)
t("set_h2", lambda: (pt.set_h2(0.5, pg), pt.var_err)[1], True)
t("pt to_hdf5", lambda: pt.to_hdf5(os.path.join(d,"pt.h5")), True)
t("pt from_hdf5", lambda: G_E_Phenotyping.from_hdf5(os.path.join(d,"pt.h5")).var_err, True)
from pybrops.breed.prot.bv.MeanPhenotypicBreedingValue import MeanPhenotypicBreedingValue
t("meanbv", lambda: MeanPhenotypicBreedingValue("taxa","taxa_grp",["y1","y2"]).estimate(df, pg).unscale(), True)
# vcf
