import shim, numpy, warnings, traceback, inspect
warnings.simplefilter("ignore")
from pybrops.core.random import prng
from pybrops.popgen.gmat.DensePhasedGenotypeMatrix import DensePhasedGenotypeMatrix
from pybrops.model.gmod.DenseAdditiveLinearGenomicModel import DenseAdditiveLinearGenomicModel
from pybrops.breed.prot.sel import EstimatedBreedingValueSelection as E, GenomicEstimatedBreedingValueSelection as G, OptimalContributionSelection as OCS, RandomSelection as R, OptimalHaploidValueSelection as OHV, UsefulnessCriterionSelection as UC
from pybrops.opt.algo.SortingSubsetOptimizationAlgorithm import SortingSubsetOptimizationAlgorithm
from pybrops.opt.algo.NSGA2SubsetGeneticAlgorithm import NSGA2SubsetGeneticAlgorithm
from pybrops.opt.algo.RealGeneticAlgorithm import RealGeneticAlgorithm
rng = numpy.random.default_rng(1)
nt,nv=8,12
pg = DensePhasedGenotypeMatrix(rng.integers(0,2,(2,nt,nv)).astype('int8'), taxa=numpy.array(["t%d"%i for i in range(nt)],dtype=object), taxa_grp=numpy.arange(nt),
    vrnt_chrgrp=numpy.repeat([1,2],6), vrnt_phypos=numpy.tile(numpy.arange(6)*10+1,2), vrnt_name=numpy.array(["m%d"%i for i in range(nv)],dtype=object),
    vrnt_genpos=numpy.tile(numpy.arange(6)*0.1,2), vrnt_xoprob=numpy.tile([0.5,.1,.1,.0,.2,.5],2))
pg.group_vrnt()
gm = DenseAdditiveLinearGenomicModel(beta=numpy.array([[0.0,0.0]]), u_misc=None, u_a=rng.normal(size=(nv,2)), trait=numpy.array(["y1","y2"],dtype=object))
bv = gm.gebv(pg)
def t(name,f):
    try:
        r=f(); print("OK ",name, str(r)[:300].replace("\n"," ")); return r
    except Exception as e:
        print("ERR",name,type(e).__name__,str(e)[:200]); traceback.print_exc(limit=-2)
def ebv():
    p = E.EstimatedBreedingValueSubsetSelection(ntrait=2, unscale=True, ncross=2, nparent=2, nmating=1, nprogeny=3, nobj=1, obj_wt=numpy.array([1.0]), obj_trans=lambda x,l,**k: l[:1], soalgo=SortingSubsetOptimizationAlgorithm())
    mo={}
    cfg = p.select(pgmat=pg, gmat=pg, ptdf=None, bvmat=bv, gpmod=gm, t_cur=0, t_max=5, miscout=mo)
    prng.seed(3)
    x = cfg.sample_xconfig(return_xconfig=True)
    return cfg.xconfig_decn, x.tolist(), bv.unscale()[:,0].round(2).tolist(), sorted(mo)
t("EBV subset sorting", ebv)
def ebv_mo():
    p = E.EstimatedBreedingValueSubsetSelection(ntrait=2, unscale=True, ncross=2, nparent=2, nmating=1, nprogeny=3, nobj=2, moalgo=NSGA2SubsetGeneticAlgorithm(ngen=3,pop_size=8))
    mo={}
    cfg = p.select(pgmat=pg, gmat=pg, ptdf=None, bvmat=bv, gpmod=gm, t_cur=0, t_max=5, miscout=mo)
    return cfg.xconfig_decn, mo["mosoln"].soln_obj.shape
t("EBV subset MO", ebv_mo)
def ebv_real():
    p = E.EstimatedBreedingValueRealSelection(ntrait=2, unscale=True, ncross=3, nparent=2, nmating=1, nprogeny=3, nobj=1, obj_trans=lambda x,l,**k: l[:1], soalgo=RealGeneticAlgorithm(ngen=3,pop_size=8))
    cfg = p.select(pgmat=pg, gmat=pg, ptdf=None, bvmat=bv, gpmod=gm, t_cur=0, t_max=5)
    prng.seed(3)
    return cfg.xconfig_decn.round(2), cfg.sample_xconfig(return_xconfig=True).tolist()
t("EBV real", ebv_real)
def gebv():
    p = G.GenomicEstimatedBreedingValueSubsetSelection(ntrait=2, unscale=True, ncross=2, nparent=2, nmating=1, nprogeny=3, nobj=1, obj_trans=lambda x,l,**k: l[:1], soalgo=SortingSubsetOptimizationAlgorithm())
    return p.select(pgmat=pg, gmat=pg, ptdf=None, bvmat=bv, gpmod=gm, t_cur=0, t_max=5).xconfig_decn
t("GEBV subset", gebv)
