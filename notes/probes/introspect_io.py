import shim, importlib, pkgutil, inspect, pybrops, warnings
warnings.simplefilter("ignore")
names = ["to_hdf5","from_hdf5","to_csv","from_csv","to_pandas","from_pandas","to_csv_dict","from_csv_dict","to_pandas_dict","from_pandas_dict","from_vcf","from_numpy","to_numpy"]
seen=set()
for m in pkgutil.walk_packages(pybrops.__path__, "pybrops.", onerror=lambda n: None):
    if ".test" in m.name or "pmebvmat" in m.name: continue
    try: mod = importlib.import_module(m.name)
    except Exception: continue
    for cname,obj in vars(mod).items():
        if not inspect.isclass(obj) or obj.__module__!=m.name or inspect.isabstract(obj) or obj in seen: continue
        seen.add(obj)
        have = [n for n in names if hasattr(obj,n)]
        if not have: continue
        print("##", m.name.replace("pybrops.","").rsplit(".",1)[0], cname)
        for n in have:
            f = getattr(obj,n)
            try: sig = inspect.signature(f)
            except Exception: continue
            ps = []
            for p in sig.parameters.values():
                if p.name in ("self","cls","kwargs"): continue
                ps.append(p.name if p.default is inspect._empty else f"{p.name}={p.default!r}")
            # who defines it
            owner = [k.__name__ for k in obj.__mro__ if n in vars(k)][0]
            print(f"   {n}({', '.join(ps)})" + ("" if owner==cname else f"   <- {owner}"))
