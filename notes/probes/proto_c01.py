import shim, numpy, warnings, random, collections
warnings.simplefilter("ignore")
from numpy.random import Generator, PCG64
from pybrops.popgen.gmat.DensePhasedGenotypeMatrix import DensePhasedGenotypeMatrix
from pybrops.breed.prot.mate.SelfCross import SelfCross
from pybrops.breed.prot.mate.TwoWayCross import TwoWayCross
from pybrops.breed.prot.mate.TwoWayDHCross import TwoWayDHCross
from pybrops.breed.prot.mate.ThreeWayCross import ThreeWayCross
from pybrops.breed.prot.mate.ThreeWayDHCross import ThreeWayDHCross
from pybrops.breed.prot.mate.FourWayCross import FourWayCross
from pybrops.breed.prot.mate.FourWayDHCross import FourWayDHCross
class SimGen(Generator):
    def __init__(s, seed, mode="pass"): super().__init__(PCG64(seed)); s.mode=mode; s.calls=0
    def uniform(s, low=0.0, high=1.0, size=None):
        s.calls+=1
        if s.mode=="zero": return numpy.full(size, low, dtype=float)
        if s.mode=="one": return numpy.full(size, numpy.nextafter(high, low), dtype=float)
        return super().uniform(low, high, size)
PROT = {"self":(SelfCross,1,False),"2w":(TwoWayCross,2,False),"2wdh":(TwoWayDHCross,2,True),"3w":(ThreeWayCross,3,False),"3wdh":(ThreeWayDHCross,3,True),"4w":(FourWayCross,4,False),"4wdh":(FourWayDHCross,4,True)}
def run(seed):
    R = random.Random(seed)
    nt = R.randint(1,8); nchr = R.randint(1,3); nv = R.randint(nchr, 12)
    # provenance codes
    mat = numpy.empty((2,nt,nv),dtype='int8')
    for t in range(nt):
        for ph in range(2): mat[ph,t,:] = 2*t+ph
    chrgrp = numpy.sort(numpy.array([R.randrange(nchr) for _ in range(nv)]))+1
    xo = numpy.array([R.choice([0.0,0.0,0.5,0.1,0.3,1.0]) for _ in range(nv)])
    for c in numpy.unique(chrgrp): xo[numpy.flatnonzero(chrgrp==c)[0]] = 0.5
    pg = DensePhasedGenotypeMatrix(mat.copy(), taxa=numpy.array(["f%d"%i for i in range(nt)],dtype=object), taxa_grp=numpy.arange(nt),
        vrnt_chrgrp=chrgrp, vrnt_phypos=numpy.arange(nv)+1, vrnt_name=numpy.array(["m%d"%i for i in range(nv)],dtype=object), vrnt_genpos=numpy.arange(nv)*.1, vrnt_xoprob=xo)
    pg.group_vrnt()
    pname = R.choice(list(PROT)); cls,npar,isdh = PROT[pname]
    ncross = R.randint(1,4)
    xconfig = numpy.array([[R.randrange(nt) for _ in range(npar)] for _ in range(ncross)])
    if R.random()<.5: nmating = R.randint(1,3)
    else: nmating = numpy.array([R.randint(0,3) for _ in range(ncross)])
    if R.random()<.5: nprogeny = R.randint(1,3)
    else: nprogeny = numpy.array([R.randint(0,3) for _ in range(ncross)])
    nself = R.randint(0,2)
    mode = R.choice(["pass","pass","zero","one"])
    pc, fc = R.choice([0,5,9999995]), R.choice([0,3])
    mp = cls(progeny_counter=pc, family_counter=fc, rng=SimGen(seed, mode))
    before = pg.mat.copy()
    try:
        prog = mp.mate(pg, xconfig, nmating, nprogeny, nself=nself)
    except Exception as e:
        return ("EXC", pname, type(e).__name__, str(e)[:100], dict(nt=nt,nv=nv,ncross=ncross,nmating=str(nmating),nprogeny=str(nprogeny)))
    errs=[]
    nm = numpy.broadcast_to(nmating,(ncross,)); npg = numpy.broadcast_to(nprogeny,(ncross,))
    exp_counts = nm*npg
    if prog.ntaxa != exp_counts.sum(): errs.append(("count", prog.ntaxa, int(exp_counts.sum())))
    if not numpy.array_equal(pg.mat, before): errs.append(("parent-mutated",))
    # family blocks
    fam = prog.taxa_grp
    exp_fam = numpy.repeat(numpy.arange(fc, fc+ncross), exp_counts)
    if not numpy.array_equal(fam, exp_fam): errs.append(("family", fam.tolist(), exp_fam.tolist()))
    if mp.family_counter != fc+ncross: errs.append(("famcounter",))
    if mp.progeny_counter != pc+exp_counts.sum(): errs.append(("progcounter",))
    if len(set(prog.taxa)) != prog.ntaxa: errs.append(("names-not-unique",))
    # provenance
    pm = prog.mat
    for i in range(prog.ntaxa):
        if i >= len(exp_fam): break
        x = xconfig[exp_fam[i]-fc]
        lab = lambda t: {2*t, 2*t+1}
        if pname=="self": sides = [lab(x[0]), lab(x[0])]
        elif npar==2: sides = [lab(x[0]), lab(x[1])]
        elif npar==3: sides = [lab(x[0]), lab(x[1])|lab(x[2])]
        else: sides = [lab(x[2])|lab(x[3]), lab(x[0])|lab(x[1])]
        if nself>0 or isdh: sides = [sides[0]|sides[1]]*2
        for ph in range(2):
            got = set(pm[ph,i].tolist())
            if not got <= sides[ph]: errs.append(("provenance", pname, i, ph, sorted(got), sorted(sides[ph]), x.tolist(), nself)); break
            sw = numpy.flatnonzero(pm[ph,i,1:] != pm[ph,i,:-1])+1
            if numpy.any(xo[sw]==0.0): errs.append(("switch-at-zero", pname, i, ph, sw.tolist(), xo.tolist())); break
        if isdh and not numpy.array_equal(pm[0,i], pm[1,i]): errs.append(("dh-not-homozygous", i))
    for a in ("vrnt_chrgrp","vrnt_phypos","vrnt_name","vrnt_genpos","vrnt_xoprob","vrnt_chrgrp_name","vrnt_chrgrp_stix","vrnt_chrgrp_spix","vrnt_chrgrp_len"):
        if not numpy.array_equal(getattr(prog,a), getattr(pg,a)): errs.append(("meta",a))
    return ("OK",pname,mode) if not errs else ("VIOL", pname, mode, errs[:2])
res = collections.Counter(); ex = {}
for seed in range(6000):
    r = run(seed); k = r[0]+":"+r[1]+(":"+r[2] if r[0]!="OK" else "")
    res[k]+=1; ex.setdefault(k, (seed, r))
for k,v in sorted(res.items()): print(v, k)
for k,(seed,r) in ex.items():
    if not k.startswith("OK"): print(seed, str(r)[:600])
