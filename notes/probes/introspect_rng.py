import shim, importlib, pkgutil, inspect, pybrops, warnings
warnings.simplefilter("ignore")
rows=[]
for m in pkgutil.walk_packages(pybrops.__path__, "pybrops.", onerror=lambda n: print("PKG FAIL", n)):
    if ".test" in m.name: continue
    try: mod = importlib.import_module(m.name)
    except Exception as e: print("IMPORT FAIL", m.name, type(e).__name__, str(e)[:80]); continue
    for name,obj in vars(mod).items():
        if getattr(obj,"__module__",None)!=m.name: continue
        if inspect.isclass(obj):
            try: sig = inspect.signature(obj.__init__)
            except Exception: continue
            if "rng" in sig.parameters:
                rows.append((m.name.replace("pybrops.",""), name, "abstract" if inspect.isabstract(obj) else "concrete"))
        elif inspect.isfunction(obj):
            try:
                if "rng" in inspect.signature(obj).parameters: rows.append((m.name.replace("pybrops.",""), name+"()", "function"))
            except Exception: pass
import collections
by = collections.defaultdict(list)
for mod,name,kind in rows: by[mod.rsplit(".",1)[0]].append(f"{name}[{kind[0]}]")
for k,v in sorted(by.items()): print(k, ":", ", ".join(v))
print(len(rows))
