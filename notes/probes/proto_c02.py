import shim, numpy, warnings, time
warnings.simplefilter("ignore")
from numpy.random import Generator, PCG64
from pybrops.popgen.gmat.DensePhasedGenotypeMatrix import DensePhasedGenotypeMatrix
from pybrops.breed.prot.mate.TwoWayDHCross import TwoWayDHCross
from pybrops.breed.prot.mate.util import mat_meiosis
class Strat(Generator):
    def __init__(s, seed): super().__init__(PCG64(seed)); s.hits=0
    def uniform(s, low=0.0, high=1.0, size=None):
        if size is not None and len(size)==2 and low==0 and high==1:
            s.hits+=1
            N,m = size
            pts = (numpy.arange(N)+0.5)/N
            out = numpy.empty(size)
            for j in range(m): out[:,j] = super().permutation(pts)
            return out
        return super().uniform(low, high, size)
N=4000; m=10
xo = numpy.array([0.5,0.1,0.0,0.25,0.3333,0.5,0.5,0.01,0.2,0.499])
geno = numpy.zeros((2,1,m),dtype='int8'); geno[1]=1   # copy0 all 0, copy1 all 1 -> gamete value = phase
g = Strat(1)
t=time.perf_counter()
gam = mat_meiosis(geno, numpy.zeros(N,dtype=int), xo, g)
dt=time.perf_counter()-t
rec = numpy.empty(m); rec[0] = gam[:,0].mean()            # start copy frequency
rec[1:] = (gam[:,1:] != gam[:,:-1]).mean(0)
print("hits", g.hits, "time %.3fs"%dt)
print("xoprob ", xo.tolist()); print("realised", rec.round(5).tolist()); print("max |diff|*N", (numpy.abs(rec-xo)*N).max())
# real rng cost
t=time.perf_counter(); gam = mat_meiosis(geno, numpy.zeros(200000,dtype=int), xo, numpy.random.default_rng(3)); dt=time.perf_counter()-t
rec[0]=gam[:,0].mean(); rec[1:]=(gam[:,1:]!=gam[:,:-1]).mean(0)
z = (rec-xo)/numpy.sqrt(numpy.maximum(xo*(1-xo),1e-12)/200000)
print("real 2e5: %.2fs"%dt, "max |z|", numpy.abs(z[xo>0]).max())
# C14: zero covariance
r = numpy.random.default_rng(1)
print("mvn zero cov:", r.multivariate_normal(numpy.zeros(2), numpy.zeros((2,2)), 3).tolist(), r.multivariate_normal(numpy.zeros(2), numpy.diag([0.0,1.0]), 2)[:,0].tolist())
