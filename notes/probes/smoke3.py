import shim, numpy, traceback
def t(name, f, tb=False):
    try:
        r = f(); print("OK ", name, "" if r is None else str(r)[:200].replace("\n"," "))
        return r
    except Exception as e:
        print("ERR", name, type(e).__name__, str(e)[:300])
        if tb: traceback.print_exc(limit=-3)
from pybrops.core.random import prng
from pybrops.opt.algo.SubsetGeneticAlgorithm import SubsetGeneticAlgorithm
from pybrops.opt.algo.NSGA2SubsetGeneticAlgorithm import NSGA2SubsetGeneticAlgorithm
from pybrops.opt.algo.SortingSubsetOptimizationAlgorithm import SortingSubsetOptimizationAlgorithm
from pybrops.opt.algo.SteepestDescentSubsetHillClimber import SteepestDescentSubsetHillClimber
from pybrops.opt.algo.RealGeneticAlgorithm import RealGeneticAlgorithm
from pybrops.opt.algo.IntegerGeneticAlgorithm import IntegerGeneticAlgorithm
from pybrops.opt.algo.BinaryGeneticAlgorithm import BinaryGeneticAlgorithm
from pybrops.breed.prot.sel.prob.EstimatedBreedingValueSelectionProblem import EstimatedBreedingValueSubsetSelectionProblem, EstimatedBreedingValueRealSelectionProblem, EstimatedBreedingValueIntegerSelectionProblem, EstimatedBreedingValueBinarySelectionProblem
rng = numpy.random.default_rng(5)
ebv = rng.normal(size=(10,2))
tr = lambda x,l,**k: l.sum(keepdims=True)
def mkprob(nobj=1):
    return EstimatedBreedingValueSubsetSelectionProblem(ebv=ebv, ndecn=3, decn_space=numpy.arange(10), decn_space_lower=numpy.repeat(0,3), decn_space_upper=numpy.repeat(9,3),
        nobj=nobj, obj_wt=numpy.array([1.0]*nobj), obj_trans=tr if nobj==1 else None, nineqcv=0, neqcv=0)
p1 = t("prob", lambda: mkprob(), True)
t("evalfn", lambda: p1.evalfn(numpy.array([1,2,3])))
def runga():
    prng.seed(42)
    s = SubsetGeneticAlgorithm(ngen=3, pop_size=6).minimize(p1)
    return s.soln_decn.tolist(), s.soln_obj.tolist()
rs = [t("GA run", runga, True) for _ in range(4)]
print("GA reproducible under prng.seed:", all(r==rs[0] for r in rs))
def runga2():
    s = SubsetGeneticAlgorithm(ngen=3, pop_size=6, rng=numpy.random.default_rng(1)).minimize(p1)
    return s.soln_decn.tolist(), s.soln_obj.tolist()
rs = [t("GA rng run", runga2, True) for _ in range(4)]
print("GA explicit rng reproducible:", all(r==rs[0] for r in rs))
p2 = mkprob(2)
t("NSGA2", lambda: NSGA2SubsetGeneticAlgorithm(ngen=5, pop_size=12).minimize(p2).soln_decn.tolist(), True)
t("Sorting", lambda: SortingSubsetOptimizationAlgorithm().minimize(p1).soln_decn, True)
t("HC", lambda: SteepestDescentSubsetHillClimber().minimize(p1).soln_decn, True)
pr = t("realprob", lambda: EstimatedBreedingValueRealSelectionProblem(ebv=ebv, ndecn=10, decn_space=numpy.stack([numpy.zeros(10),numpy.ones(10)]), decn_space_lower=numpy.zeros(10), decn_space_upper=numpy.ones(10), nobj=1, obj_trans=tr), True)
t("realGA", lambda: RealGeneticAlgorithm(ngen=5,pop_size=10).minimize(pr).soln_decn, True)
pi = t("intprob", lambda: EstimatedBreedingValueIntegerSelectionProblem(ebv=ebv, ndecn=10, decn_space=numpy.stack([numpy.zeros(10,dtype=int),numpy.repeat(3,10)]), decn_space_lower=numpy.zeros(10,dtype=int), decn_space_upper=numpy.repeat(3,10), nobj=1, obj_trans=tr), True)
t("intGA", lambda: IntegerGeneticAlgorithm(ngen=5,pop_size=10).minimize(pi).soln_decn, True)
pb = t("binprob", lambda: EstimatedBreedingValueBinarySelectionProblem(ebv=ebv, ndecn=10, decn_space=numpy.stack([numpy.zeros(10,dtype=int),numpy.ones(10,dtype=int)]), decn_space_lower=numpy.zeros(10,dtype=int), decn_space_upper=numpy.ones(10,dtype=int), nobj=1, obj_trans=tr), True)
t("binGA", lambda: BinaryGeneticAlgorithm(ngen=5,pop_size=10).minimize(pb).soln_decn, True)
