#!/usr/bin/env python3
"""print python source with docstrings/comments/blank lines stripped: src.py file [start end]"""
import sys, ast, io, tokenize
fn = sys.argv[1]
src = open(fn).read()
lines = src.split("\n")
tree = ast.parse(src)
drop = set()
for node in ast.walk(tree):
    if isinstance(node, (ast.FunctionDef, ast.ClassDef, ast.AsyncFunctionDef, ast.Module)):
        b = node.body
        if b and isinstance(b[0], ast.Expr) and isinstance(getattr(b[0], 'value', None), ast.Constant) and isinstance(b[0].value.value, str):
            for i in range(b[0].lineno, b[0].end_lineno+1): drop.add(i)
s = int(sys.argv[2]) if len(sys.argv) > 2 else 1
e = int(sys.argv[3]) if len(sys.argv) > 3 else len(lines)
for i in range(s, e+1):
    if i in drop: continue
    l = lines[i-1]
    st = l.strip()
    if not st or st.startswith("#"): continue
    print(f"{i}:{l}")
