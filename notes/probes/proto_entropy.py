import shim, sys, os, hashlib, numpy, random, time, warnings
warnings.simplefilter("ignore")
import numpy.random.bit_generator as bg
world = int(sys.argv[1]); seed = int(sys.argv[2])
class World:
    def __init__(s, w): s.w=w; s.reads=0; s.t=1.0e9*(w+1)
    def randbits(s,k): s.reads+=1; return int.from_bytes(hashlib.blake2b(f"{s.w}:{s.reads}".encode(),digest_size=64).digest(),"big") & ((1<<k)-1)
    def urandom(s,n): s.reads+=1; return (hashlib.blake2b(f"{s.w}:{s.reads}".encode(),digest_size=64).digest()*(n//64+1))[:n]
    def time(s): s.t+=0.001; return s.t
W = World(world)
bg.randbits = W.randbits; os.urandom = W.urandom; random._urandom = W.urandom
time.time = W.time; time.perf_counter = W.time; time.monotonic = W.time
from pybrops.core.random import prng
from pybrops.opt.algo.SubsetGeneticAlgorithm import SubsetGeneticAlgorithm
from pybrops.opt.algo.NSGA2SubsetGeneticAlgorithm import NSGA2SubsetGeneticAlgorithm
from pybrops.opt.algo.NSGA3SubsetGeneticAlgorithm import NSGA3SubsetGeneticAlgorithm
from pybrops.opt.algo.RealGeneticAlgorithm import RealGeneticAlgorithm
from pybrops.opt.algo.NSGA2MemeticSubsetGeneticAlgorithm import NSGA2SteepestDescentSubsetGeneticAlgorithm
from pybrops.breed.prot.sel.prob.EstimatedBreedingValueSelectionProblem import EstimatedBreedingValueSubsetSelectionProblem, EstimatedBreedingValueRealSelectionProblem
r = numpy.random.default_rng(5); ebv = r.normal(size=(10,2)); tr = lambda x,l,**k: l.sum(keepdims=True)
mk = lambda nobj: EstimatedBreedingValueSubsetSelectionProblem(ebv=ebv, ndecn=3, decn_space=numpy.arange(10), decn_space_lower=numpy.repeat(0,3), decn_space_upper=numpy.repeat(9,3), nobj=nobj, obj_trans=tr if nobj==1 else None)
pr = EstimatedBreedingValueRealSelectionProblem(ebv=ebv, ndecn=10, decn_space=numpy.stack([numpy.zeros(10),numpy.ones(10)]), decn_space_lower=numpy.zeros(10), decn_space_upper=numpy.ones(10), nobj=1, obj_trans=tr)
h = hashlib.sha256()
prng.seed(seed)
for name, f in [("ga", lambda: SubsetGeneticAlgorithm(ngen=3,pop_size=6).minimize(mk(1))),
          ("nsga2", lambda: NSGA2SubsetGeneticAlgorithm(ngen=3,pop_size=8).minimize(mk(2))),
          ("nsga3", lambda: NSGA3SubsetGeneticAlgorithm(ngen=3,pop_size=8).minimize(mk(2))),
          ("real", lambda: RealGeneticAlgorithm(ngen=3,pop_size=6).minimize(pr)),
          ("memetic", lambda: NSGA2SteepestDescentSubsetGeneticAlgorithm(ngen=2,pop_size=8).minimize(mk(2)))]:
    try:
        s = f(); h.update(name.encode()); h.update(numpy.ascontiguousarray(s.soln_decn).tobytes()); h.update(numpy.ascontiguousarray(s.soln_obj).tobytes())
    except Exception as e:
        h.update(f"{name}:ERR:{type(e).__name__}:{e}".encode()); print(name, "ERR", type(e).__name__, str(e)[:120], file=sys.stderr)
print(f"world={world} seed={seed} hashseed={os.environ.get('PYTHONHASHSEED')} reads={W.reads} digest={h.hexdigest()[:16]}")
