import shim, numpy, warnings
warnings.simplefilter("ignore")
from pybrops.popgen.gmat.DensePhasedGenotypeMatrix import DensePhasedGenotypeMatrix
from pybrops.model.gmod.DenseAdditiveLinearGenomicModel import DenseAdditiveLinearGenomicModel
u = numpy.array([[1.0],[-2.0],[0.5],[-0.25]])
gm = DenseAdditiveLinearGenomicModel(beta=numpy.array([[10.0]]), u_misc=None, u_a=u, trait=numpy.array(["y"],dtype=object))
def pop(n):
    m = numpy.ones((2,n,4),dtype='int8')   # fixed for allele 1 everywhere
    return DensePhasedGenotypeMatrix(m, taxa=numpy.array(["t%d"%i for i in range(n)],dtype=object), taxa_grp=numpy.zeros(n,dtype=int),
       vrnt_chrgrp=numpy.ones(4,dtype=int), vrnt_phypos=numpy.arange(4)+1)
for n in (48,49,50,98,103):
    p = pop(n)
    g = gm.gebv(p).unscale()
    print(n, "afreq", p.afreq().tolist(), "usl", gm.usl(p,unscale=True), "lsl", gm.lsl(p,unscale=True), "gebv range", g.min(), g.max(), "apoly(phased)", p.apoly().tolist())
