import shim, numpy, warnings, itertools, traceback
warnings.simplefilter("ignore")
import numpy.random.bit_generator as bg
bg.randbits = lambda k: 12345
from pybrops.core.random import prng
from pybrops.opt.algo import (SortingSubsetOptimizationAlgorithm as A1, SteepestDescentSubsetHillClimber as A2, SortingSteepestDescentSubsetHillClimber as A3,
  SubsetGeneticAlgorithm as A4, RealGeneticAlgorithm as A5, IntegerGeneticAlgorithm as A6, BinaryGeneticAlgorithm as A7, NSGA2SubsetGeneticAlgorithm as A8,
  NSGA2RealGeneticAlgorithm as A9, NSGA2IntegerGeneticAlgorithm as A10, NSGA2BinaryGeneticAlgorithm as A11, NSGA3SubsetGeneticAlgorithm as A12, NSGA2MemeticSubsetGeneticAlgorithm as A13)
from pybrops.breed.prot.sel.prob.EstimatedBreedingValueSelectionProblem import (EstimatedBreedingValueSubsetSelectionProblem as PS, EstimatedBreedingValueRealSelectionProblem as PR,
  EstimatedBreedingValueIntegerSelectionProblem as PI, EstimatedBreedingValueBinarySelectionProblem as PB)
r = numpy.random.default_rng(5); n=7; ebv = r.normal(size=(n,2))
sumtr = lambda x,l,**k: l.sum(keepdims=True)
cvtr  = lambda x,l,**k: numpy.array([max(0.0, l[1]+0.2)])     # inequality: -mean(trait2) <= -0.2  i.e. violation when latent[1] > -0.2
def PSub(nobj, con=False): return PS(ebv=ebv, ndecn=3, decn_space=numpy.arange(n), decn_space_lower=numpy.repeat(0,3), decn_space_upper=numpy.repeat(n-1,3), nobj=nobj, obj_trans=sumtr if nobj==1 else None, nineqcv=1 if con else 0, ineqcv_wt=numpy.array([1.0]) if con else None, ineqcv_trans=cvtr if con else None)
def PReal(nobj): return PR(ebv=ebv, ndecn=n, decn_space=numpy.stack([numpy.zeros(n),numpy.ones(n)]), decn_space_lower=numpy.zeros(n), decn_space_upper=numpy.ones(n), nobj=nobj, obj_trans=sumtr if nobj==1 else None)
def PInt(nobj): return PI(ebv=ebv, ndecn=n, decn_space=numpy.stack([numpy.zeros(n,dtype=int),numpy.repeat(3,n)]), decn_space_lower=numpy.zeros(n,dtype=int), decn_space_upper=numpy.repeat(3,n), nobj=nobj, obj_trans=sumtr if nobj==1 else None)
def PBin(nobj): return PB(ebv=ebv, ndecn=n, decn_space=numpy.stack([numpy.zeros(n,dtype=int),numpy.ones(n,dtype=int)]), decn_space_lower=numpy.zeros(n,dtype=int), decn_space_upper=numpy.ones(n,dtype=int), nobj=nobj, obj_trans=sumtr if nobj==1 else None)
def check(name, algo, prob, kind):
    prng.seed(1)
    try: s = algo.minimize(prob)
    except Exception as e:
        print(f"ERR  {name:44s} {type(e).__name__}: {str(e)[:110]}"); return
    notes=[]
    X = s.soln_decn
    for i,x in enumerate(X):
        o,g,h = prob.evalfn(x)
        if not numpy.allclose(o, s.soln_obj[i], rtol=1e-12, atol=0): notes.append(f"obj-mismatch[{i}] {o} vs {s.soln_obj[i]}")
        if s.soln_ineqcv is not None and len(g) and not numpy.allclose(g, s.soln_ineqcv[i]): notes.append(f"ineqcv-mismatch[{i}] {g} vs {s.soln_ineqcv[i]}")
        if kind=="subset" and (len(set(x.tolist()))!=len(x) or not set(x.tolist())<=set(prob.decn_space.tolist())): notes.append(f"infeasible-subset {x.tolist()}")
        if kind in("int","bin","real") and (numpy.any(x<prob.decn_space_lower) or numpy.any(x>prob.decn_space_upper)): notes.append("out-of-bounds")
    F = s.soln_obj
    if len(F)>1:
        dom = [(i,j) for i in range(len(F)) for j in range(len(F)) if i!=j and numpy.all(F[i]<=F[j]) and numpy.any(F[i]<F[j])]
        if dom: notes.append(f"dominated-pairs {dom[:3]}")
    print(f"ok   {name:44s} nsoln={s.nsoln} decn.dtype={X.dtype} obj.shape={s.soln_obj.shape} ineq.shape={None if s.soln_ineqcv is None else s.soln_ineqcv.shape} {'; '.join(notes)}")
check("Sorting/subset", A1.SortingSubsetOptimizationAlgorithm(), PSub(1), "subset")
check("SteepestDescentHC/subset", A2.SteepestDescentSubsetHillClimber(rng=numpy.random.default_rng(2)), PSub(1), "subset")
check("SteepestDescentHC/subset+con", A2.SteepestDescentSubsetHillClimber(rng=numpy.random.default_rng(2)), PSub(1,True), "subset")
check("SortingSteepestDescentHC/subset", A3.SortingSteepestDescentSubsetHillClimber(), PSub(1), "subset")
check("SubsetGA", A4.SubsetGeneticAlgorithm(ngen=3,pop_size=8), PSub(1), "subset")
check("SubsetGA+con", A4.SubsetGeneticAlgorithm(ngen=3,pop_size=8), PSub(1,True), "subset")
check("RealGA", A5.RealGeneticAlgorithm(ngen=3,pop_size=8), PReal(1), "real")
check("IntegerGA", A6.IntegerGeneticAlgorithm(ngen=3,pop_size=8), PInt(1), "int")
check("BinaryGA", A7.BinaryGeneticAlgorithm(ngen=3,pop_size=8), PBin(1), "bin")
check("NSGA2Subset", A8.NSGA2SubsetGeneticAlgorithm(ngen=3,pop_size=8), PSub(2), "subset")
check("NSGA2Subset+con", A8.NSGA2SubsetGeneticAlgorithm(ngen=3,pop_size=8), PSub(2,True), "subset")
check("NSGA2Real", A9.NSGA2RealGeneticAlgorithm(ngen=3,pop_size=8), PReal(2), "real")
check("NSGA2Integer", A10.NSGA2IntegerGeneticAlgorithm(ngen=3,pop_size=8), PInt(2), "int")
check("NSGA2Binary", A11.NSGA2BinaryGeneticAlgorithm(ngen=3,pop_size=8), PBin(2), "bin")
check("NSGA3Subset", A12.NSGA3SubsetGeneticAlgorithm(ngen=3,pop_size=8), PSub(2), "subset")
for nm in ("NSGA2SteepestDescentSubsetGeneticAlgorithm","NSGA2StochasticDescentSubsetGeneticAlgorithm","NSGA2MutatorASubsetGeneticAlgorithm","NSGA2MutatorBSubsetGeneticAlgorithm"):
    check(nm, getattr(A13,nm)(ngen=2,pop_size=8), PSub(2), "subset")
