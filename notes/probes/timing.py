import shim, numpy, time, io, h5py, copy, os, tempfile
from pybrops.popgen.gmat.DensePhasedGenotypeMatrix import DensePhasedGenotypeMatrix
from pybrops.breed.prot.mate.TwoWayDHCross import TwoWayDHCross
from pybrops.breed.prot.mate.FourWayCross import FourWayCross
from pybrops.opt.algo.SubsetGeneticAlgorithm import SubsetGeneticAlgorithm
from pybrops.opt.algo.NSGA2SubsetGeneticAlgorithm import NSGA2SubsetGeneticAlgorithm
from pybrops.breed.prot.sel.prob.EstimatedBreedingValueSelectionProblem import EstimatedBreedingValueSubsetSelectionProblem
from pybrops.core.random.sampling import stochastic_universal_sampling, outcross_shuffle
rng = numpy.random.default_rng(1)
def mk(nt,nv):
    mat = rng.integers(0,2,(2,nt,nv)).astype('int8')
    pg = DensePhasedGenotypeMatrix(mat, taxa=numpy.array(["t%d"%i for i in range(nt)],dtype=object), taxa_grp=numpy.arange(nt)//2,
        vrnt_chrgrp=numpy.repeat([1,2],nv//2), vrnt_phypos=numpy.arange(nv), vrnt_name=numpy.array(["m%d"%i for i in range(nv)],dtype=object),
        vrnt_genpos=numpy.arange(nv)*0.1, vrnt_xoprob=numpy.tile([0.5]+[.1]*(nv//2-1),2))
    pg.group_vrnt(); return pg
def bench(name, f, n=200):
    t=time.perf_counter()
    for _ in range(n): f()
    dt=(time.perf_counter()-t)/n
    print(f"{name}: {dt*1e3:.3f} ms")
pg = mk(8,12)
mp = TwoWayDHCross(rng=numpy.random.default_rng(2))
bench("2wdh mate 8x12, 4 crosses x2x3", lambda: mp.mate(pg, numpy.array([[0,1],[2,3],[4,5],[6,7]]), 2, 3, nself=1))
pg2 = mk(50,40)
bench("2wdh mate 50x40, 25 crosses x1x2", lambda: mp.mate(pg2, numpy.arange(50).reshape(25,2), 1, 2), 50)
def h5rt():
    bio = io.BytesIO()
    with h5py.File(bio,"w") as f: pg.to_hdf5(f)
    with h5py.File(bio,"r") as f: DensePhasedGenotypeMatrix.from_hdf5(f)
bench("hdf5 roundtrip fileobj", h5rt, 100)
d = tempfile.mkdtemp(dir="/dev/shm")
def h5rt2():
    p=os.path.join(d,"x.h5"); pg.to_hdf5(p); DensePhasedGenotypeMatrix.from_hdf5(p)
bench("hdf5 roundtrip path shm", h5rt2, 100)
bench("group_taxa+sort", lambda: (pg.sort_taxa(), pg.group_taxa()), 500)
bench("deepcopy", lambda: copy.deepcopy(pg), 500)
ebv = rng.normal(size=(10,1))
tr = lambda x,l,**k: l
p1 = EstimatedBreedingValueSubsetSelectionProblem(ebv=ebv, ndecn=3, decn_space=numpy.arange(10), decn_space_lower=numpy.repeat(0,3), decn_space_upper=numpy.repeat(9,3), nobj=1, obj_trans=tr)
bench("GA ngen3 pop6", lambda: SubsetGeneticAlgorithm(ngen=3,pop_size=6).minimize(p1), 20)
ebv2 = rng.normal(size=(10,2))
p2 = EstimatedBreedingValueSubsetSelectionProblem(ebv=ebv2, ndecn=3, decn_space=numpy.arange(10), decn_space_lower=numpy.repeat(0,3), decn_space_upper=numpy.repeat(9,3), nobj=2)
bench("NSGA2 ngen3 pop8", lambda: NSGA2SubsetGeneticAlgorithm(ngen=3,pop_size=8).minimize(p2), 20)
bench("SUS 10->(5,2)", lambda: stochastic_universal_sampling(numpy.arange(10), rng.random(10), (5,2), rng), 500)
x = rng.integers(0,4,(5,2))
bench("outcross_shuffle 5x2", lambda: outcross_shuffle(x.copy(), rng), 100)
import shutil; shutil.rmtree(d)
