import numpy
if not hasattr(numpy, "float_"): numpy.float_ = numpy.float64
if not hasattr(numpy, "in1d"):
    def in1d(ar1, ar2, assume_unique=False, invert=False, **k):
        return numpy.isin(numpy.asarray(ar1).ravel(), ar2, assume_unique=assume_unique, invert=invert, **k)
    numpy.in1d = in1d
