import shim, numpy, io, h5py, copy
from numpy.random import Generator, PCG64
from pybrops.core.random.sampling import stochastic_universal_sampling
from pybrops.popgen.gmat.DensePhasedGenotypeMatrix import DensePhasedGenotypeMatrix
from pybrops.popgen.bvmat.DenseBreedingValueMatrix import DenseBreedingValueMatrix
class G(Generator):
    def __init__(s, bg, mode): super().__init__(bg); s.mode=mode
    def uniform(s, low=0.0, high=1.0, size=None):
        if s.mode=="lo": return low if size is None else numpy.full(size, low)
        if s.mode=="hi": return numpy.nextafter(high, low)
        return super().uniform(low, high, size)
# SUS adversarial offsets
bad=0; tot=0; ex=None
r = numpy.random.default_rng(0)
for trial in range(3000):
    n = r.integers(1,8); k = int(r.integers(1,12))
    p = r.random(n) * (r.random(n) > 0.2); 
    if p.sum()==0: continue
    for mode in ("lo","hi"):
        tot+=1
        try:
            out = stochastic_universal_sampling(numpy.arange(n), p, k, G(PCG64(1),mode))
            if out.shape!=(k,): bad+=1; ex=(p.tolist(),k,mode,out.shape)
            else:
                c = numpy.bincount(out, minlength=n); e = k*p/p.sum()
                if numpy.any(c < numpy.floor(e-1e-9)) or numpy.any(c > numpy.ceil(e+1e-9)) or numpy.any(c[p==0]>0): bad+=1; ex=(p.tolist(),k,mode,c.tolist(),e.tolist())
        except Exception as e:
            bad+=1; ex=(p.tolist(),k,mode,type(e).__name__,str(e)[:80])
print("SUS adversarial:", bad, "/", tot, ex)
bad=0; tot=0
for trial in range(20000):
    n = r.integers(1,8); k = int(r.integers(1,12)); p = r.random(n)
    tot+=1
    try:
        out = stochastic_universal_sampling(numpy.arange(n), p, k, r)
        if out.shape!=(k,): bad+=1
    except Exception as e: bad+=1; ex=(p.tolist(),k,type(e).__name__,str(e)[:80])
print("SUS real rng:", bad, "/", tot, ex if bad else "")
# HDF5 stale optional field
nt,nv=3,4
mk = lambda taxa: DensePhasedGenotypeMatrix(numpy.zeros((2,nt,nv),dtype='int8'), taxa=taxa, vrnt_chrgrp=numpy.array([1,1,2,2]), vrnt_phypos=numpy.arange(4))
bio = io.BytesIO()
with h5py.File(bio,"w") as f:
    mk(numpy.array(["a","b","c"],dtype=object)).to_hdf5(f,"g")
    mk(None).to_hdf5(f,"g")
    back = DensePhasedGenotypeMatrix.from_hdf5(f,"g")
print("HDF5 overwrite richer->poorer: taxa read back =", back.taxa)
# reorder after group
pg = DensePhasedGenotypeMatrix(numpy.arange(2*4*2,dtype='int8').reshape(2,4,2)%2, taxa=numpy.array(list("abcd"),dtype=object), taxa_grp=numpy.array([1,1,2,2]))
pg.group_taxa(); pg.reorder_taxa(numpy.array([0,2,1,3]))
print("after group+reorder: is_grouped", pg.is_grouped_taxa(), "taxa_grp", pg.taxa_grp, "stix", pg.taxa_grp_stix, "spix", pg.taxa_grp_spix)
try:
    from pybrops.core.mat.DenseTaxaMatrix import DenseTaxaMatrix
    m = DenseTaxaMatrix(numpy.arange(6.).reshape(3,2), taxa=numpy.array(list("abc"),dtype=object), taxa_grp=numpy.array([1,1,2]))
    m.incorp(1, numpy.array([[9.,9.]]), axis=0, taxa=numpy.array(["z"],dtype=object), taxa_grp=numpy.array([5]))
    print("DenseTaxaMatrix.incorp generic ok", m.taxa)
except Exception as e: print("DenseTaxaMatrix.incorp generic:", type(e).__name__, str(e)[:80])
# BV append
raw = numpy.array([[1.,10.],[2.,20.],[3.,60.]])
bv = DenseBreedingValueMatrix.from_numpy(raw, taxa=numpy.array(list("abc"),dtype=object), taxa_grp=numpy.array([1,1,2]), trait=numpy.array(["x","y"],dtype=object))
bv2 = DenseBreedingValueMatrix.from_numpy(numpy.array([[100.,5.]]), taxa=numpy.array(["d"],dtype=object), taxa_grp=numpy.array([3]), trait=numpy.array(["x","y"],dtype=object))
adj = bv.adjoin_taxa(bv2).unscale()
b3 = copy.deepcopy(bv); b3.append_taxa(bv2)
print("adjoin unscale:", adj.tolist()); print("append unscale:", b3.unscale().tolist())
print("tmax(unscale) twice:", bv.tmax(True), bv.tmax(True), "mat max", bv.mat.max(0))
