import shim, numpy, copy, traceback, warnings
warnings.simplefilter("ignore")
from pybrops.core.mat.DenseTaxaMatrix import DenseTaxaMatrix
from pybrops.core.mat.DenseVariantMatrix import DenseVariantMatrix
from pybrops.core.mat.DenseTraitMatrix import DenseTraitMatrix
from pybrops.core.mat.DenseTaxaVariantMatrix import DenseTaxaVariantMatrix
from pybrops.core.mat.DensePhasedTaxaVariantMatrix import DensePhasedTaxaVariantMatrix
from pybrops.core.mat.DenseTaxaTraitMatrix import DenseTaxaTraitMatrix
from pybrops.core.mat.DenseSquareTaxaMatrix import DenseSquareTaxaMatrix
from pybrops.core.mat.DenseSquareTaxaTraitMatrix import DenseSquareTaxaTraitMatrix
from pybrops.popgen.gmat.DenseGenotypeMatrix import DenseGenotypeMatrix
from pybrops.popgen.gmat.DensePhasedGenotypeMatrix import DensePhasedGenotypeMatrix
from pybrops.popgen.bvmat.DenseBreedingValueMatrix import DenseBreedingValueMatrix
from pybrops.popgen.cmat.DenseMolecularCoancestryMatrix import DenseMolecularCoancestryMatrix
from pybrops.model.vmat.DenseTwoWayDHAdditiveGeneticVarianceMatrix import DenseTwoWayDHAdditiveGeneticVarianceMatrix
nt,nv,ntr=4,6,2
O=lambda l: numpy.array(l,dtype=object)
taxa=O(["b","a","d","c"]); tgrp=numpy.array([2,1,2,1])
vkw=dict(vrnt_chrgrp=numpy.array([2,1,2,1,1,2]), vrnt_phypos=numpy.array([5,3,1,9,7,2]), vrnt_name=O(list("uvwxyz")), vrnt_genpos=numpy.arange(6)/10., vrnt_xoprob=numpy.full(6,.1), vrnt_hapgrp=numpy.arange(6), vrnt_mask=numpy.ones(6,bool))
trait=O(["y","x"])
f=lambda *s: numpy.arange(numpy.prod(s),dtype=float).reshape(s)
i8=lambda *s: (numpy.arange(numpy.prod(s)).reshape(s)%2).astype('int8')
cases = {
 "DenseTaxaMatrix": (lambda: DenseTaxaMatrix(f(nt,3), taxa=taxa.copy(), taxa_grp=tgrp.copy()), {"taxa":0}),
 "DenseVariantMatrix": (lambda: DenseVariantMatrix(f(3,nv), **{k:v.copy() for k,v in vkw.items()}), {"vrnt":1}),
 "DenseTraitMatrix": (lambda: DenseTraitMatrix(f(3,ntr), trait=trait.copy()), {"trait":1}),
 "DenseTaxaVariantMatrix": (lambda: DenseTaxaVariantMatrix(f(nt,nv), taxa=taxa.copy(), taxa_grp=tgrp.copy(), **{k:v.copy() for k,v in vkw.items()}), {"taxa":0,"vrnt":1}),
 "DensePhasedTaxaVariantMatrix": (lambda: DensePhasedTaxaVariantMatrix(f(2,nt,nv), taxa=taxa.copy(), taxa_grp=tgrp.copy(), **{k:v.copy() for k,v in vkw.items()}), {"taxa":1,"vrnt":2,"phase":0}),
 "DenseTaxaTraitMatrix": (lambda: DenseTaxaTraitMatrix(f(nt,ntr), taxa=taxa.copy(), taxa_grp=tgrp.copy(), trait=trait.copy()), {"taxa":0,"trait":1}),
 "DenseSquareTaxaMatrix": (lambda: DenseSquareTaxaMatrix(f(nt,nt), taxa=taxa.copy(), taxa_grp=tgrp.copy()), {"taxa":0}),
 "DenseSquareTaxaTraitMatrix": (lambda: DenseSquareTaxaTraitMatrix(f(nt,nt,ntr), taxa=taxa.copy(), taxa_grp=tgrp.copy(), trait=trait.copy()), {"taxa":0,"trait":2}),
 "DenseGenotypeMatrix": (lambda: DenseGenotypeMatrix(i8(nt,nv), taxa=taxa.copy(), taxa_grp=tgrp.copy(), **{k:v.copy() for k,v in vkw.items()}), {"taxa":0,"vrnt":1}),
 "DensePhasedGenotypeMatrix": (lambda: DensePhasedGenotypeMatrix(i8(2,nt,nv), taxa=taxa.copy(), taxa_grp=tgrp.copy(), **{k:v.copy() for k,v in vkw.items()}), {"taxa":1,"vrnt":2,"phase":0}),
 "DenseBreedingValueMatrix": (lambda: DenseBreedingValueMatrix.from_numpy(f(nt,ntr)**2, taxa=taxa.copy(), taxa_grp=tgrp.copy(), trait=trait.copy()), {"taxa":0,"trait":1}),
 "DenseMolecularCoancestryMatrix": (lambda: DenseMolecularCoancestryMatrix(f(nt,nt), taxa=taxa.copy(), taxa_grp=tgrp.copy()), {"taxa":0}),
 "DenseTwoWayDHAdditiveGeneticVarianceMatrix": (lambda: DenseTwoWayDHAdditiveGeneticVarianceMatrix(f(nt,nt,ntr), taxa=taxa.copy(), taxa_grp=tgrp.copy(), trait=trait.copy()), {"taxa":0,"trait":2}),
}
def tryop(name, fn):
    try:
        fn(); return "ok"
    except RecursionError: return "RECURSION"
    except NotImplementedError: return "NotImpl"
    except Exception as e: return f"{type(e).__name__}:{str(e)[:50]}"
for cname,(mk,axes) in cases.items():
    try: m = mk()
    except Exception as e:
        print(cname, "CTOR FAIL", type(e).__name__, str(e)[:100]); continue
    print("==", cname, m.mat.shape)
    for ax,axi in axes.items():
        res = {}
        n = m.mat.shape[axi]
        perm = numpy.arange(n)[::-1].copy()
        # specific forms
        for op, call in [
            ("select", lambda o: getattr(o,f"select_{ax}")([0,1])),
            ("delete", lambda o: getattr(o,f"delete_{ax}")([0])),
            ("remove", lambda o: getattr(o,f"remove_{ax}")([0])),
            ("reorder", lambda o: getattr(o,f"reorder_{ax}")(perm)),
            ("lexsort", lambda o: getattr(o,f"lexsort_{ax}")()),
            ("sort", lambda o: getattr(o,f"sort_{ax}")()),
            ("group", lambda o: getattr(o,f"group_{ax}")()),
            ("is_grouped", lambda o: getattr(o,f"is_grouped_{ax}")()),
            ("ungroup", lambda o: getattr(o,f"ungroup_{ax}")()),
            ("adjoin", lambda o: getattr(o,f"adjoin_{ax}")(mk())),
            ("append", lambda o: getattr(o,f"append_{ax}")(mk())),
            ("concat", lambda o: getattr(type(o),f"concat_{ax}")([o,mk()])),
            ("insert", lambda o: getattr(o,f"insert_{ax}")(1, getattr(mk(),f"select_{ax}")([0]))),
            ("incorp", lambda o: getattr(o,f"incorp_{ax}")(1, getattr(mk(),f"select_{ax}")([0]))),
        ]:
            res[op+"_s"] = tryop(op, lambda: call(mk()))
        for op, call in [
            ("select", lambda o: o.select([0,1], axis=axi)),
            ("delete", lambda o: o.delete([0], axis=axi)),
            ("remove", lambda o: o.remove([0], axis=axi)),
            ("reorder", lambda o: o.reorder(perm, axis=axi)),
            ("lexsort", lambda o: o.lexsort(None, axis=axi)),
            ("sort", lambda o: o.sort(None, axis=axi)),
            ("group", lambda o: o.group(axis=axi)),
            ("is_grouped", lambda o: o.is_grouped(axis=axi)),
            ("ungroup", lambda o: o.ungroup(axis=axi)),
            ("adjoin", lambda o: o.adjoin(mk(), axis=axi)),
            ("append", lambda o: o.append(mk(), axis=axi)),
            ("concat", lambda o: type(o).concat([o,mk()], axis=axi)),
            ("insert", lambda o: o.insert(1, getattr(mk(),f"select_{ax}")([0]), axis=axi)),
            ("incorp", lambda o: o.incorp(1, getattr(mk(),f"select_{ax}")([0]), axis=axi)),
        ]:
            res[op+"_g"] = tryop(op, lambda: call(mk()))
        bad = {k:v for k,v in res.items() if v!="ok"}
        print(f"  axis {ax}({axi}): {len(res)-len(bad)}/{len(res)} ok;", "; ".join(f"{k}={v}" for k,v in bad.items()))
