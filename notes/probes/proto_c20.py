import shim, numpy, copy, random, warnings, collections
warnings.simplefilter("ignore")
from pybrops.breed.arch.RecurrentSelectionBreedingProgram import RecurrentSelectionBreedingProgram as RSBP
from pybrops.breed.op.init.InitializationOperator import InitializationOperator
from pybrops.breed.op.psel.ParentSelectionOperator import ParentSelectionOperator
from pybrops.breed.op.mate.MatingOperator import MatingOperator
from pybrops.breed.op.eval.EvaluationOperator import EvaluationOperator
from pybrops.breed.op.ssel.SurvivorSelectionOperator import SurvivorSelectionOperator
from pybrops.breed.op.log.Logbook import Logbook
from pybrops.popgen.gmat.DensePhasedGenotypeMatrix import DensePhasedGenotypeMatrix
class Crash(Exception): pass
class Sim:
    def __init__(s, R, crash_at): s.R=R; s.ev=[]; s.n=0; s.crash_at=crash_at; s.serial=0; s.stash=[]
    def tick(s, name, **kw):
        s.ev.append((name, kw)); s.n+=1
        if s.crash_at is not None and s.n==s.crash_at: s.crash_at=None; raise Crash(name)
    def stamp(s, conts, mode):
        s.serial+=1
        out=[]
        for c in conts:
            if mode=="pure": c = dict(c)
            c["stamp"]=s.serial
            if mode=="mutate": c.setdefault("hist",[]).append(s.serial); c["pg"].mat[0,0,0] ^= 1
            out.append(c)
        if mode=="stash": s.stash.extend(out)
        for old in s.stash[:-5]: old["poison"]=s.serial      # mutate containers seen earlier (possibly previous replicate)
        return out
def dig(c): return (c.get("stamp"), None if "pg" not in c else c["pg"].mat.tobytes(), tuple(c.get("hist",[])) , c.get("poison"))
def mkops(sim, modes):
    class I(InitializationOperator):
        def initialize(self, miscout=None, **kw): sim.tick("init"); return tuple(copy.deepcopy(START))
    class P(ParentSelectionOperator):
        def pselect(self, genome, geno, pheno, bval, gmod, t_cur, t_max, miscout=None, **kw):
            sim.tick("psel", t=t_cur, inp=[dig(c) for c in (genome,geno,pheno,bval,gmod)]); o=sim.stamp((genome,geno,pheno,bval,gmod),modes[0]); return ("mcfg",sim.serial), *o
    class M(MatingOperator):
        def mate(self, mcfg, genome, geno, pheno, bval, gmod, t_cur, t_max, miscout=None, **kw):
            sim.tick("mate", t=t_cur, mcfg=mcfg, inp=[dig(c) for c in (genome,geno,pheno,bval,gmod)]); return tuple(sim.stamp((genome,geno,pheno,bval,gmod),modes[1]))
    class E(EvaluationOperator):
        def evaluate(self, genome, geno, pheno, bval, gmod, t_cur, t_max, miscout=None, **kw):
            sim.tick("eval", t=t_cur, inp=[dig(c) for c in (genome,geno,pheno,bval,gmod)]); return tuple(sim.stamp((genome,geno,pheno,bval,gmod),modes[2]))
    class S(SurvivorSelectionOperator):
        def sselect(self, genome, geno, pheno, bval, gmod, t_cur, t_max, miscout=None, **kw):
            sim.tick("ssel", t=t_cur, inp=[dig(c) for c in (genome,geno,pheno,bval,gmod)]); return tuple(sim.stamp((genome,geno,pheno,bval,gmod),modes[3]))
    class L(Logbook):
        def __init__(s): s._rep=0; s._data={}
        data=property(lambda s:s._data, lambda s,v:setattr(s,"_data",v)); rep=property(lambda s:s._rep, lambda s,v:setattr(s,"_rep",v))
        def log_initialize(s, genome, geno, pheno, bval, gmod, t_cur, t_max, **kw): sim.tick("log_init", rep=s.rep, t=t_cur, st=dig(genome))
        def log_pselect(s, mcfg, genome, geno, pheno, bval, gmod, t_cur, t_max, **kw): sim.tick("log_psel", rep=s.rep, t=t_cur, st=dig(genome))
        def log_mate(s, mcfg, genome, geno, pheno, bval, gmod, t_cur, t_max, **kw): sim.tick("log_mate", rep=s.rep, t=t_cur, st=dig(genome))
        def log_evaluate(s, genome, geno, pheno, bval, gmod, t_cur, t_max, **kw): sim.tick("log_eval", rep=s.rep, t=t_cur, st=dig(genome))
        def log_sselect(s, genome, geno, pheno, bval, gmod, t_cur, t_max, **kw): sim.tick("log_ssel", rep=s.rep, t=t_cur, st=dig(genome))
        def reset(s): pass
        def write(s, f): pass
    return I(),P(),M(),E(),S(),L()
def mkstart():
    return [ {"pg": DensePhasedGenotypeMatrix(numpy.zeros((2,2,3),dtype='int8'), taxa=numpy.array(["a","b"],dtype=object)), "k": i} for i in range(5)]
START = mkstart()
def expected(nrep, ngen, loginit, rep0):
    seq=[]
    for r in range(nrep):
        seq.append(("eval",0)); 
        if loginit: seq.append(("log_init",0))
        for g in range(1,ngen+1): seq += [("psel",g),("log_psel",g),("mate",g),("log_mate",g),("eval",g),("log_eval",g),("ssel",g),("log_ssel",g)]
    return seq
res=collections.Counter()
for seed in range(3000):
    R=random.Random(seed); nrep=R.randint(0,3); ngen=R.randint(0,3); loginit=R.random()<.5
    modes=[R.choice(["pure","mutate","same","stash"]) for _ in range(4)]
    total = len(expected(nrep,ngen,loginit,0))
    crash = R.randint(1,total) if total and R.random()<.5 else None
    sim=Sim(R,crash); I,P,M,E,S,L = mkops(sim,modes)
    start = mkstart(); startdig=[dig(c) for c in start]
    bp = RSBP(I,P,M,E,S,t_max=5, start_genome=start[0], start_geno=start[1], start_pheno=start[2], start_bval=start[3], start_gmod=start[4])
    crashed=False
    try: bp.evolve(nrep=nrep, ngen=ngen, lbook=L, loginit=loginit)
    except Crash: crashed=True
    got=[(n,kw["t"]) for n,kw in sim.ev]
    exp=expected(nrep,ngen,loginit,0)
    ok = (got==exp[:len(got)]) and (crashed or got==exp)
    # replicate starts equal to initial state & start unchanged
    ok_start = [dig(c) for c in start]==startdig
    first_evals = [kw["inp"] for n,kw in sim.ev if n=="eval" and kw["t"]==0]
    ok_fresh = all(inp==startdig for inp in first_evals)
    # handover: each op's input stamp == previous op's returned serial
    # restart
    if crashed:
        n0=len(sim.ev)
        bp.evolve(nrep=nrep, ngen=ngen, lbook=L, loginit=loginit)
        got2=[(n,kw["t"]) for n,kw in sim.ev[n0:]]
        ok = ok and got2==exp
        first_evals = [kw["inp"] for n,kw in sim.ev[n0:] if n=="eval" and kw["t"]==0]
        ok_fresh = ok_fresh and all(inp==startdig for inp in first_evals) and [dig(c) for c in start]==startdig
    res[(ok, ok_start, ok_fresh, crashed)]+=1
    if not (ok and ok_start and ok_fresh): print("seed",seed,nrep,ngen,loginit,modes,crash, ok, ok_start, ok_fresh); break
print(res)
